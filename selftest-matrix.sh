#!/bin/bash
# For each deliberate / seeded change: run EVERY registered check against a scratch copy
# with the change applied and print which checks raise an alarm (exit 1), stay silent
# (exit 0) or break (exit 2).  Used to fill the "which checks catch which changes" table
# and to look for alarms under the wrong property id.
#   ./selftest-matrix.sh [patch ...]
set -u
cd "$(dirname "$0")"
export GOFLAGS=-mod=mod GOPROXY=off GOSUMDB=off GOTOOLCHAIN=local
REPO=${VERIF_REPO_BASE:-/repo}
IDS=${VERIF_MATRIX_IDS:-"C02 C06 C09 C12 C13 C15 C18 C19"}
names=("$@")
if [ ${#names[@]} -eq 0 ]; then for f in mutants/*.patch seeded/*/patch.diff; do [ -f "$f" ] && names+=("$f"); done; fi
printf "%-52s %s\n" "change" "$IDS"
for f in "${names[@]}"; do
  d=$(mktemp -d /tmp/verif-mat-XXXXXX)
  rsync -a --exclude .git "$REPO"/ "$d"/
  if ! (cd "$d" && patch -p1 -s < "$OLDPWD/$f" >/dev/null 2>&1); then echo "$f: patch does not apply"; rm -rf "$d"; continue; fi
  row=""
  for id in $IDS; do
    VERIF_REPO="$d" VERIF_EVIDENCE_DIR="$d/.evidence" ./check "$id" > "$d/.out" 2>&1; rc=$?
    case $rc in 0) row="$row  . ";; 1) row="$row  X ";; *) row="$row  E$rc";; esac
  done
  printf "%-52s %s\n" "$(echo $f | sed 's#mutants/##; s#seeded/##; s#/patch.diff##; s#.patch##')" "$row"
  h=$(python3 - "$d" <<'PY'
import sys
def mixs(s):
    h=0xcbf29ce484222325
    for c in s.encode():
        h^=c; h=(h*0x100000001b3)&0xffffffffffffffff
    return h
print(mixs(sys.argv[1])%1000000)
PY
)
  rm -rf "$d" ".build/r$h"
done
