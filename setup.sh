#!/bin/bash
# Build the framework from files on disk only (offline) and warm the build cache.
set -e
cd "$(dirname "$0")"
export GOFLAGS=-mod=mod GOPROXY=off GOSUMDB=off GOTOOLCHAIN=local
unset GOWORK
mkdir -p .build evidence replays
(cd sim && go build -o ../.build/vdrive ./cmd/vdrive && go build ./... )
# warm: race-enabled standard library and the plain worker
(cd sim && go build -race -o ../.build/warm-race ./cmd/vsim && go build -o ../.build/warm-plain ./cmd/vsim) || true
rm -f .build/warm-race .build/warm-plain
echo "setup ok"
