#!/bin/bash
# Sensitivity self-test: apply each deliberate property-breaking patch of
# /verif/mutants (or /verif/seeded/*/patch.diff) to a scratch copy of the tree,
# and require the named check to report a VIOLATION within the quick budget.
#   ./selftest-mutants.sh [-t] [name ...]     -t: also run the repository's own tests on the mutant
# Patch header lines:  "# breaks: C18"   (the check that must fire)
#                      "# silent: C09 C13" (checks that must stay quiet; optional)
set -u
cd "$(dirname "$0")"
export GOFLAGS=-mod=mod GOPROXY=off GOSUMDB=off GOTOOLCHAIN=local
REPO=${VERIF_REPO_BASE:-/repo}
RUNTESTS=0
if [ "${1:-}" = "-t" ]; then RUNTESTS=1; shift; fi
names=("$@")
if [ ${#names[@]} -eq 0 ]; then
  for f in mutants/*.patch seeded/*/patch.diff; do [ -f "$f" ] && names+=("$f"); done
fi
pass=0; fail=0; report=()
for n in "${names[@]}"; do
  f="$n"; [ -f "$f" ] || f="mutants/$n.patch"; [ -f "$f" ] || f="seeded/$n/patch.diff"
  [ -f "$f" ] || { echo "no such mutant: $n"; fail=$((fail+1)); continue; }
  breaks=$(grep -m1 '^# breaks:' "$f" | sed 's/^# breaks://')
  silent=$(grep -m1 '^# silent:' "$f" | sed 's/^# silent://')
  if [ -z "$breaks" ] && [ -f "$(dirname "$f")/meta.json" ]; then
    breaks=$(python3 -c "import json,sys; m=json.load(open(sys.argv[1])); print(m.get('property',''))" "$(dirname "$f")/meta.json")
  fi
  d=$(mktemp -d /tmp/verif-mut-XXXXXX)
  rsync -a --exclude .git "$REPO"/ "$d"/
  if ! (cd "$d" && patch -p1 -s < "$OLDPWD/$f"); then echo "MUTANT $n: patch does not apply"; fail=$((fail+1)); rm -rf "$d"; continue; fi
  if ! (cd "$d" && go build ./... 2>/dev/null); then echo "MUTANT $n: does not compile"; fail=$((fail+1)); rm -rf "$d"; continue; fi
  if [ $RUNTESTS = 1 ]; then
    if ! (cd "$d" && go test -vet=off -count=1 ./... >/dev/null 2>&1); then echo "MUTANT $n: repository tests FAIL (mutant is not stealthy)"; fi
  fi
  for id in $breaks; do
    out=$(VERIF_REPO="$d" VERIF_EVIDENCE_DIR="$d/.evidence" ./check "$id" 2>&1); rc=$?
    if [ $rc = 1 ] && echo "$out" | grep -q "^VIOLATION property=$id "; then
      echo "MUTANT $n: caught by $id: $(echo "$out" | grep -m1 '^  violation' )"; pass=$((pass+1))
    else
      echo "MUTANT $n: MISSED by $id (exit $rc)"; echo "$out" | tail -5; fail=$((fail+1))
    fi
  done
  for id in $silent; do
    out=$(VERIF_REPO="$d" VERIF_EVIDENCE_DIR="$d/.evidence" ./check "$id" 2>&1); rc=$?
    if [ $rc != 0 ]; then echo "MUTANT $n: check $id should be silent but exit $rc"; echo "$out" | tail -5; fail=$((fail+1)); fi
  done
  rm -rf "$d"
  # build output of the scratch tree
  rm -rf .build/r$(python3 - "$d" <<'PY'
import sys
def mixs(s):
    h=0xcbf29ce484222325
    for c in s.encode():
        h^=c; h=(h*0x100000001b3)&0xffffffffffffffff
    return h
print(mixs(sys.argv[1])%1000000)
PY
)
done
echo "mutants caught: $pass  problems: $fail"
[ $fail = 0 ]
