// Package simsync is a drop-in replacement for package sync used by the
// instrumented copies of library files.  Mutex, RWMutex and Once wrap the real
// primitives (so the race detector sees the code's genuine happens-before edges)
// and cooperate with the rt scheduler: a task that cannot take a lock gives the
// token away instead of blocking the only running thread.  With no simulation
// active every type behaves exactly like its sync counterpart.
package simsync

import (
	"sync"
	"unsafe"

	"verifsim/rt"
)

// Reserved site ids for synchronisation operations.
const (
	SiteLock    = 4000
	SiteUnlock  = 4001
	SiteRLock   = 4002
	SiteRUnlock = 4003
	SiteOnce    = 4004
)

type Locker = sync.Locker
type WaitGroup = sync.WaitGroup

// Pool is a deterministic stand-in for sync.Pool: a LIFO stack under a real mutex.
// sync.Pool itself is non-deterministic by design (per-P caches, victim cache cleared
// by the GC, random drops under the race detector), which would make the number of
// statements executed - and with it the schedule - differ from process to process.
// It never drops an item, so an object that is Put twice is handed out twice, as it
// can be with the real pool.
type Pool struct {
	mu    sync.Mutex
	items []interface{}
	New   func() interface{}
}

func (p *Pool) Get() interface{} {
	p.mu.Lock()
	if n := len(p.items); n > 0 {
		x := p.items[n-1]
		p.items = p.items[:n-1]
		p.mu.Unlock()
		return x
	}
	p.mu.Unlock()
	if p.New != nil {
		return p.New()
	}
	return nil
}

func (p *Pool) Put(x interface{}) {
	if x == nil {
		return
	}
	p.mu.Lock()
	p.items = append(p.items, x)
	p.mu.Unlock()
}

type Map = sync.Map
type Cond = sync.Cond

func NewCond(l Locker) *Cond { return sync.NewCond(l) }

func OnceFunc(f func()) func() { return sync.OnceFunc(f) }

type Mutex struct {
	mu sync.Mutex
}

func (m *Mutex) Lock() {
	if !rt.Active() {
		m.mu.Lock()
		return
	}
	rt.Yield(SiteLock)
	for !m.mu.TryLock() {
		if !rt.Active() {
			m.mu.Lock()
			return
		}
		rt.Block(unsafe.Pointer(m))
	}
}

func (m *Mutex) TryLock() bool {
	rt.Yield(SiteLock)
	return m.mu.TryLock()
}

func (m *Mutex) Unlock() {
	m.mu.Unlock()
	rt.Wake(unsafe.Pointer(m))
	rt.Yield(SiteUnlock)
}

// ProbeTryLock / ProbeUnlock take and release the real mutex without yielding
// (harness probes only): a probe that inspects the protected state must hold the
// lock while it reads, or the race detector rightly reports the probe itself.
func (m *Mutex) ProbeTryLock() bool { return m.mu.TryLock() }
func (m *Mutex) ProbeUnlock()       { m.mu.Unlock() }

// IsFree reports whether the mutex is currently not held (harness probes only).
func (m *Mutex) IsFree() bool {
	if m.mu.TryLock() {
		m.mu.Unlock()
		return true
	}
	return false
}

type RWMutex struct {
	mu sync.RWMutex
}

func (m *RWMutex) Lock() {
	if !rt.Active() {
		m.mu.Lock()
		return
	}
	rt.Yield(SiteLock)
	for !m.mu.TryLock() {
		if !rt.Active() {
			m.mu.Lock()
			return
		}
		rt.Block(unsafe.Pointer(m))
	}
}

func (m *RWMutex) Unlock() {
	m.mu.Unlock()
	rt.Wake(unsafe.Pointer(m))
	rt.Yield(SiteUnlock)
}

func (m *RWMutex) RLock() {
	if !rt.Active() {
		m.mu.RLock()
		return
	}
	rt.Yield(SiteRLock)
	for !m.mu.TryRLock() {
		if !rt.Active() {
			m.mu.RLock()
			return
		}
		rt.Block(unsafe.Pointer(m))
	}
}

func (m *RWMutex) RUnlock() {
	m.mu.RUnlock()
	rt.Wake(unsafe.Pointer(m))
	rt.Yield(SiteRUnlock)
}

func (m *RWMutex) TryLock() bool   { rt.Yield(SiteLock); return m.mu.TryLock() }
func (m *RWMutex) TryRLock() bool  { rt.Yield(SiteRLock); return m.mu.TryRLock() }
func (m *RWMutex) RLocker() Locker { return (*rlocker)(m) }

type rlocker RWMutex

func (r *rlocker) Lock()   { (*RWMutex)(r).RLock() }
func (r *rlocker) Unlock() { (*RWMutex)(r).RUnlock() }

// Once: the function runs in exactly one task; tasks arriving while it runs give
// the token away until it has finished.
type Once struct {
	mu   Mutex
	done bool
	o    sync.Once
}

func (o *Once) Do(f func()) {
	if !rt.Active() {
		o.o.Do(f)
		return
	}
	rt.Yield(SiteOnce)
	o.mu.Lock()
	defer o.mu.Unlock()
	o.o.Do(f)
}
