package model

// Keccak-f[1600], STROBE-128/1600 (the subset Merlin uses) and Merlin v1.0,
// written from FIPS 202, the STROBE v1.0.2 specification and the Merlin
// specification (DESIGN Appendix A) - not transcribed from the library's
// internal/strobe.  Validated on start-up by SelfTestMerlin.

import "encoding/binary"

// ---- Keccak-f[1600], written from FIPS 202 (lane-wise, loops) ----
var rcs = func() [24]uint64 {
	// LFSR-based round constant generation, FIPS 202 Algorithm 5.
	var out [24]uint64
	r := byte(1)
	rc := func() bool {
		res := r&1 == 1
		hi := r&0x80 != 0
		r <<= 1
		if hi {
			r ^= 0x71
		}
		return res
	}
	for i := 0; i < 24; i++ {
		var v uint64
		for j := 0; j <= 6; j++ {
			if rc() {
				v |= 1 << ((1 << uint(j)) - 1)
			}
		}
		out[i] = v
	}
	return out
}()

func rotl(x uint64, n uint) uint64 {
	n %= 64
	if n == 0 {
		return x
	}
	return x<<n | x>>(64-n)
}

func KeccakF(st *[200]byte) {
	var a [5][5]uint64 // a[x][y]
	for x := 0; x < 5; x++ {
		for y := 0; y < 5; y++ {
			a[x][y] = binary.LittleEndian.Uint64(st[8*(x+5*y):])
		}
	}
	for round := 0; round < 24; round++ {
		// theta
		var c, d [5]uint64
		for x := 0; x < 5; x++ {
			c[x] = a[x][0] ^ a[x][1] ^ a[x][2] ^ a[x][3] ^ a[x][4]
		}
		for x := 0; x < 5; x++ {
			d[x] = c[(x+4)%5] ^ rotl(c[(x+1)%5], 1)
		}
		for x := 0; x < 5; x++ {
			for y := 0; y < 5; y++ {
				a[x][y] ^= d[x]
			}
		}
		// rho + pi
		var b [5][5]uint64
		x, y := 1, 0
		b[0][0] = a[0][0]
		for t := 0; t < 24; t++ {
			off := uint((t + 1) * (t + 2) / 2)
			nx, ny := y, (2*x+3*y)%5
			b[nx][ny] = rotl(a[x][y], off)
			x, y = nx, ny
		}
		// chi
		for x := 0; x < 5; x++ {
			for y := 0; y < 5; y++ {
				a[x][y] = b[x][y] ^ (^b[(x+1)%5][y] & b[(x+2)%5][y])
			}
		}
		// iota
		a[0][0] ^= rcs[round]
	}
	for x := 0; x < 5; x++ {
		for y := 0; y < 5; y++ {
			binary.LittleEndian.PutUint64(st[8*(x+5*y):], a[x][y])
		}
	}
}

// ---- STROBE-128/1600 subset ----
const (
	fI = 1
	fA = 2
	fC = 4
	fM = 16
)

type Strobe struct {
	st       [200]byte
	pos      int
	posBegin int
	cur      int
	R        int
}

func NewStrobe(proto string) *Strobe {
	s := &Strobe{}
	copy(s.st[:], []byte{1, 168, 1, 0, 1, 96})
	copy(s.st[6:], "STROBEv1.0.2")
	KeccakF(&s.st)
	s.R = 166
	s.cur = -1
	s.operate(fA|fM, []byte(proto), false, nil)
	return s
}

func (s *Strobe) runF() {
	s.st[s.pos] ^= byte(s.posBegin)
	s.st[s.pos+1] ^= 0x04
	s.st[s.R+1] ^= 0x80
	KeccakF(&s.st)
	s.pos, s.posBegin = 0, 0
}

func (s *Strobe) step() {
	s.pos++
	if s.pos == s.R {
		s.runF()
	}
}

func (s *Strobe) absorb(b byte) { s.st[s.pos] ^= b; s.step() }

func (s *Strobe) beginOp(f int) {
	old := s.posBegin
	s.posBegin = s.pos + 1
	s.absorb(byte(old))
	s.absorb(byte(f))
	if f&fC != 0 && s.pos != 0 {
		s.runF()
	}
}

// operate: for PRF, out receives len(out) bytes; data is nil.
func (s *Strobe) operate(f int, data []byte, more bool, out []byte) {
	if more {
		if f != s.cur {
			panic("model: flag mismatch")
		}
	} else {
		s.beginOp(f)
		s.cur = f
	}
	switch {
	case f&fC == 0: // AD / meta-AD
		for _, b := range data {
			s.absorb(b)
		}
	case f&fI == 0: // KEY
		for _, b := range data {
			s.st[s.pos] = b
			s.step()
		}
	default: // PRF
		for i := range out {
			out[i] = s.st[s.pos]
			s.st[s.pos] = 0
			s.step()
		}
	}
}

func (s *Strobe) Clone() *Strobe { c := *s; return &c }

// ---- Merlin v1.0 ----
type MTranscript struct{ s *Strobe }

func le32(n int) []byte { var b [4]byte; binary.LittleEndian.PutUint32(b[:], uint32(n)); return b[:] }

func MNew(label string) *MTranscript {
	t := &MTranscript{s: NewStrobe("Merlin v1.0")}
	t.Append("dom-sep", []byte(label))
	return t
}
func (t *MTranscript) Append(label string, msg []byte) {
	t.s.operate(fA|fM, []byte(label), false, nil)
	t.s.operate(fA|fM, le32(len(msg)), true, nil)
	t.s.operate(fA, msg, false, nil)
}
func (t *MTranscript) Challenge(label string, n int) []byte {
	out := make([]byte, n)
	t.s.operate(fA|fM, []byte(label), false, nil)
	t.s.operate(fA|fM, le32(n), true, nil)
	t.s.operate(fI|fA|fC, nil, false, out)
	return out
}
func (t *MTranscript) Clone() *MTranscript { return &MTranscript{s: t.s.Clone()} }

type MRng struct{ s *Strobe }

func (t *MTranscript) BuildRng() *MRng { return &MRng{s: t.s.Clone()} }
func (r *MRng) Rekey(label string, w []byte) {
	r.s.operate(fA|fM, []byte(label), false, nil)
	r.s.operate(fA|fM, le32(len(w)), true, nil)
	r.s.operate(fA|fC, w, false, nil)
}
func (r *MRng) Finalize(e []byte) {
	r.s.operate(fA|fM, []byte("rng"), false, nil)
	r.s.operate(fA|fC, e, false, nil)
}
func (r *MRng) Read(n int) []byte {
	out := make([]byte, n)
	r.s.operate(fA|fM, le32(n), false, nil)
	r.s.operate(fI|fA|fC, nil, false, out)
	return out
}

// ShaViaModel computes SHA3/SHAKE through the model's permutation (KAT helper).
func ShaViaModel(msg []byte, rate int, dom byte, outLen int) []byte {
	var st [200]byte
	pos := 0
	for _, b := range msg {
		st[pos] ^= b
		pos++
		if pos == rate {
			KeccakF(&st)
			pos = 0
		}
	}
	st[pos] ^= dom
	st[rate-1] ^= 0x80
	KeccakF(&st)
	out := make([]byte, 0, outLen)
	for len(out) < outLen {
		n := rate
		if outLen-len(out) < n {
			n = outLen - len(out)
		}
		out = append(out, st[:n]...)
		if len(out) < outLen {
			KeccakF(&st)
		}
	}
	return out
}
