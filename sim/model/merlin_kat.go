package model

import (
	"bytes"
	"encoding/hex"
	"fmt"

	"golang.org/x/crypto/sha3"
)

// SelfTestMerlin reproduces SHA3-256 / SHAKE128 digests through the model's own
// permutation and the two upstream Merlin test vectors.
func SelfTestMerlin() error {
	for _, m := range [][]byte{nil, []byte("abc"), bytes.Repeat([]byte{0xa3}, 200), bytes.Repeat([]byte{7}, 1000)} {
		want := sha3.Sum256(m)
		if got := ShaViaModel(m, 136, 0x06, 32); !bytes.Equal(got, want[:]) {
			return fmt.Errorf("model KAT: SHA3-256 through the model permutation differs")
		}
		w2 := make([]byte, 400)
		sha3.ShakeSum128(w2, m)
		if got := ShaViaModel(m, 168, 0x1f, 400); !bytes.Equal(got, w2) {
			return fmt.Errorf("model KAT: SHAKE128 through the model permutation differs")
		}
	}
	t := MNew("test protocol")
	t.Append("some label", []byte("some data"))
	if hex.EncodeToString(t.Challenge("challenge", 32)) != "d5a21972d0d5fe320c0d263fac7fffb8145aa640af6e9bca177c03c7efcf0615" {
		return fmt.Errorf("model KAT: Merlin simple vector differs")
	}
	t = MNew("test protocol")
	t.Append("step1", []byte("some data"))
	data := bytes.Repeat([]byte{99}, 1024)
	var chl []byte
	for i := 0; i < 32; i++ {
		chl = t.Challenge("challenge", 32)
		t.Append("bigdata", data)
		t.Append("challengedata", chl)
	}
	if hex.EncodeToString(chl) != "a8c933f54fae76e3f9bea93648c1308e7dfa2152dd51674ff3ca438351cf003c" {
		return fmt.Errorf("model KAT: Merlin complex vector differs")
	}
	return nil
}
