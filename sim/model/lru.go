// Package model holds the executable reference models (oracles).
package model

import (
	"fmt"

	"github.com/anishathalye/porcupine"
)

// LRUIn / LRUOut are the input and output of one cache operation in a history.
type LRUIn struct {
	Kind int // 0 Get, 1 Put
	Key  int
	Val  int
}

// LRUOut: Key == -1 is a miss (Get) or "no output" (Put).  Key == -2 marks a
// pointer that no Put ever stored; no model state explains it.
type LRUOut struct {
	Key int
	Val int
}

// State: recency-ordered (most recent first) list of (key,val) encoded in a
// string so that porcupine's default equality applies.
func lruFind(s string, key int) int {
	for i := 0; i+1 < len(s); i += 2 {
		if int(s[i]) == key {
			return i
		}
	}
	return -1
}

func lruFront(s string, i int, val byte) string {
	// move pair at i to the front with value val
	k := s[i]
	return string([]byte{k, val}) + s[:i] + s[i+2:]
}

// LRUStep is the sequential specification.  Put on a present key must refresh
// its recency and may keep or replace the stored value (the property does not
// fix that choice): both successor states are returned.
func LRUStep(capacity int, s string, in LRUIn, out LRUOut) []string {
	i := lruFind(s, in.Key)
	if in.Kind == 0 {
		if i < 0 {
			if out.Key == -1 {
				return []string{s}
			}
			return nil
		}
		if out.Key != in.Key || out.Val != int(s[i+1]) {
			return nil
		}
		return []string{lruFront(s, i, s[i+1])}
	}
	if i >= 0 {
		keep := lruFront(s, i, s[i+1])
		if int(s[i+1]) == in.Val {
			return []string{keep}
		}
		return []string{keep, lruFront(s, i, byte(in.Val))}
	}
	if len(s)/2 >= capacity {
		s = s[:len(s)-2] // evict least recently used
	}
	return []string{string([]byte{byte(in.Key), byte(in.Val)}) + s}
}

func LRUModel(capacity int) porcupine.Model {
	nm := porcupine.NondeterministicModel{
		Init: func() []interface{} { return []interface{}{""} },
		Step: func(state, input, output interface{}) []interface{} {
			ns := LRUStep(capacity, state.(string), input.(LRUIn), output.(LRUOut))
			r := make([]interface{}, len(ns))
			for i := range ns {
				r[i] = ns[i]
			}
			return r
		},
		Equal: func(a, b interface{}) bool { return a.(string) == b.(string) },
		DescribeOperation: func(input, output interface{}) string {
			in, out := input.(LRUIn), output.(LRUOut)
			if in.Kind == 0 {
				return fmt.Sprintf("Get(k%d)->k%d/v%d", in.Key, out.Key, out.Val)
			}
			return fmt.Sprintf("Put(k%d,v%d)", in.Key, in.Val)
		},
	}
	return nm.ToModel()
}

// LRUSelfTest checks the model on known answers.
func LRUSelfTest() error {
	type step struct {
		in  LRUIn
		out LRUOut
		ok  bool
	}
	run := func(capacity int, steps []step) error {
		states := []string{""}
		for n, st := range steps {
			var next []string
			for _, s := range states {
				next = append(next, LRUStep(capacity, s, st.in, st.out)...)
			}
			if (len(next) > 0) != st.ok {
				return fmt.Errorf("lru model KAT: step %d: accepted=%v want %v", n, len(next) > 0, st.ok)
			}
			if len(next) > 0 {
				states = next
			}
		}
		return nil
	}
	miss := LRUOut{-1, -1}
	if err := run(2, []step{
		{LRUIn{0, 1, 0}, miss, true},
		{LRUIn{1, 1, 0}, miss, true},
		{LRUIn{1, 2, 0}, miss, true},
		{LRUIn{0, 1, 0}, LRUOut{1, 0}, true}, // touch 1: 2 is now LRU
		{LRUIn{1, 3, 0}, miss, true},         // evicts 2
		{LRUIn{0, 2, 0}, LRUOut{2, 0}, false},
		{LRUIn{0, 2, 0}, miss, true},
		{LRUIn{0, 1, 0}, LRUOut{1, 0}, true},
		{LRUIn{0, 3, 0}, LRUOut{3, 0}, true},
		{LRUIn{1, 1, 1}, miss, true}, // duplicate put: value kept or replaced, recency refreshed
		{LRUIn{1, 4, 0}, miss, true}, // evicts 3
		{LRUIn{0, 3, 0}, miss, true},
		{LRUIn{0, 1, 0}, LRUOut{1, 2}, false},
		{LRUIn{0, 1, 0}, LRUOut{1, 1}, true},
		{LRUIn{0, 1, 0}, LRUOut{1, 0}, false}, // choice was fixed by the previous read
	}); err != nil {
		return err
	}
	return run(1, []step{
		{LRUIn{1, 0, 0}, miss, true},
		{LRUIn{1, 1, 0}, miss, true},
		{LRUIn{0, 0, 0}, LRUOut{0, 0}, false},
		{LRUIn{0, 1, 0}, LRUOut{1, 0}, true},
		{LRUIn{0, 1, 0}, LRUOut{0, 0}, false},
	})
}
