package model

import (
	"crypto/sha512"
	"math/big"
)

// edwards25519 and the hash-to-curve suite edwards25519_XMD:SHA-512_ELL2_NU_,
// written from RFC 8032 (5.1: point arithmetic, encoding, decoding) and RFC 9380
// (5.3.1 expand_message_xmd, 5.2 hash_to_field, 6.7.1 Elligator 2, 6.8.1 the
// rational map, clear_cofactor) over math/big.  Nothing in this file calls the
// library under test: the ECVRF model built on it is independent of the
// library's field, group and hash-to-curve code.  Not constant time, not fast.

var (
	bcP = func() *big.Int {
		p := new(big.Int).Lsh(big.NewInt(1), 255)
		return p.Sub(p, big.NewInt(19))
	}()
	bcD = func() *big.Int { // d = -121665/121666
		d := new(big.Int).ModInverse(big.NewInt(121666), bcP)
		d.Mul(d, big.NewInt(-121665))
		return d.Mod(d, bcP)
	}()
	bc2D    = new(big.Int).Mod(new(big.Int).Lsh(bcD, 1), bcP)
	bcSqrtM = func() *big.Int { // sqrt(-1) = 2^((p-1)/4)
		e := new(big.Int).Rsh(new(big.Int).Sub(bcP, big.NewInt(1)), 2)
		return new(big.Int).Exp(big.NewInt(2), e, bcP)
	}()
	bcOne = big.NewInt(1)
)

func fAdd(a, b *big.Int) *big.Int { return new(big.Int).Mod(new(big.Int).Add(a, b), bcP) }
func fSub(a, b *big.Int) *big.Int { return new(big.Int).Mod(new(big.Int).Sub(a, b), bcP) }
func fMul(a, b *big.Int) *big.Int { return new(big.Int).Mod(new(big.Int).Mul(a, b), bcP) }
func fNeg(a *big.Int) *big.Int    { return new(big.Int).Mod(new(big.Int).Neg(a), bcP) }
func fInv0(a *big.Int) *big.Int { // inv0: 0 -> 0
	if a.Sign() == 0 {
		return new(big.Int)
	}
	return new(big.Int).ModInverse(a, bcP)
}
func fPow(a, e *big.Int) *big.Int { return new(big.Int).Exp(a, e, bcP) }

// fSqrt returns (root, true) if a is a square (p = 5 mod 8).
func fSqrt(a *big.Int) (*big.Int, bool) {
	e := new(big.Int).Rsh(new(big.Int).Add(bcP, big.NewInt(3)), 3) // (p+3)/8
	c := fPow(a, e)
	if fMul(c, c).Cmp(new(big.Int).Mod(a, bcP)) == 0 {
		return c, true
	}
	c = fMul(c, bcSqrtM)
	if fMul(c, c).Cmp(new(big.Int).Mod(a, bcP)) == 0 {
		return c, true
	}
	return nil, false
}

// BPoint is a point of edwards25519 in extended homogeneous coordinates.
type BPoint struct{ X, Y, Z, T *big.Int }

func BIdentity() *BPoint {
	return &BPoint{new(big.Int), big.NewInt(1), big.NewInt(1), new(big.Int)}
}

func bAffine(x, y *big.Int) *BPoint {
	return &BPoint{new(big.Int).Set(x), new(big.Int).Set(y), big.NewInt(1), fMul(x, y)}
}

// Add is the complete addition law of RFC 8032 5.1.4 (valid for all pairs of points).
func (p *BPoint) Add(q *BPoint) *BPoint {
	a := fMul(fSub(p.Y, p.X), fSub(q.Y, q.X))
	b := fMul(fAdd(p.Y, p.X), fAdd(q.Y, q.X))
	c := fMul(fMul(p.T, bc2D), q.T)
	d := fMul(fAdd(p.Z, p.Z), q.Z)
	e, f, g, h := fSub(b, a), fSub(d, c), fAdd(d, c), fAdd(b, a)
	return &BPoint{fMul(e, f), fMul(g, h), fMul(f, g), fMul(e, h)}
}

func (p *BPoint) Neg() *BPoint {
	return &BPoint{fNeg(p.X), new(big.Int).Set(p.Y), new(big.Int).Set(p.Z), fNeg(p.T)}
}
func (p *BPoint) Sub(q *BPoint) *BPoint { return p.Add(q.Neg()) }

// Mul returns n*p for any non-negative integer n and any point (double-and-add).
func (p *BPoint) Mul(n *big.Int) *BPoint {
	if n.Sign() < 0 {
		panic("model: negative multiplier")
	}
	acc := BIdentity()
	for i := n.BitLen() - 1; i >= 0; i-- {
		acc = acc.Add(acc)
		if n.Bit(i) == 1 {
			acc = acc.Add(p)
		}
	}
	return acc
}

func (p *BPoint) MulByCofactor() *BPoint { return p.Mul(big.NewInt(8)) }

func (p *BPoint) affine() (x, y *big.Int) {
	zi := new(big.Int).ModInverse(p.Z, bcP)
	return fMul(p.X, zi), fMul(p.Y, zi)
}

func (p *BPoint) IsIdentity() bool {
	x, y := p.affine()
	return x.Sign() == 0 && y.Cmp(bcOne) == 0
}

// Encode is RFC 8032 5.1.2.
func (p *BPoint) Encode() []byte {
	x, y := p.affine()
	out := BigToLE32(y)
	out[31] |= byte(x.Bit(0)) << 7
	return out
}

// BDecode is RFC 8032 5.1.3; nil stands for "decoding fails" (y >= p, no square
// root, or x = 0 with the sign bit set).
func BDecode(s []byte) *BPoint {
	if len(s) != 32 {
		return nil
	}
	ys := append([]byte(nil), s...)
	sign := uint(ys[31] >> 7)
	ys[31] &= 0x7f
	y := LEToBig(ys)
	if y.Cmp(bcP) >= 0 {
		return nil
	}
	yy := fMul(y, y)
	u := fSub(yy, bcOne)
	v := fAdd(fMul(bcD, yy), bcOne)
	x2 := fMul(u, fInv0(v))
	x, ok := fSqrt(x2)
	if !ok {
		return nil
	}
	if x.Sign() == 0 && sign == 1 {
		return nil
	}
	if x.Bit(0) != sign {
		x = fNeg(x)
	}
	return bAffine(x, y)
}

// BBase is the base point, decoded from its RFC 8032 encoding.
func BBase() *BPoint {
	b := make([]byte, 32)
	for i := range b {
		b[i] = 0x66
	}
	b[0] = 0x58
	p := BDecode(b)
	if p == nil {
		panic("model: cannot decode the edwards25519 base point")
	}
	return p
}

// ---- RFC 9380 ---------------------------------------------------------------------

// ExpandMessageXMDSHA512 is expand_message_xmd (5.3.1) with SHA-512 for DSTs of at
// most 255 octets and outputs of at most 255*64 octets.
func ExpandMessageXMDSHA512(msg, dst []byte, n int) []byte {
	if len(dst) > 255 {
		panic("model: DST longer than 255 octets is not modelled")
	}
	ell := (n + 63) / 64
	dstPrime := append(append([]byte(nil), dst...), byte(len(dst)))
	h := sha512.New()
	h.Write(make([]byte, 128)) // Z_pad: s_in_bytes of SHA-512
	h.Write(msg)
	h.Write([]byte{byte(n >> 8), byte(n), 0})
	h.Write(dstPrime)
	b0 := h.Sum(nil)
	var out, prev []byte
	for i := 1; i <= ell; i++ {
		h.Reset()
		x := make([]byte, 64)
		for j := range x {
			x[j] = b0[j]
			if prev != nil {
				x[j] ^= prev[j]
			}
		}
		h.Write(x)
		h.Write([]byte{byte(i)})
		h.Write(dstPrime)
		prev = h.Sum(nil)
		out = append(out, prev...)
	}
	return out[:n]
}

func sgn0(x *big.Int) uint { return x.Bit(0) }

// elligator2Curve25519 is map_to_curve_elligator2 (6.7.1) for curve25519
// (J = 486662, K = 1, Z = 2); it returns the affine Montgomery point (s, t).
func elligator2Curve25519(u *big.Int) (s, t *big.Int) {
	J := big.NewInt(486662)
	x1 := fMul(fNeg(J), fInv0(fAdd(bcOne, fMul(big.NewInt(2), fMul(u, u)))))
	if x1.Sign() == 0 {
		x1 = fNeg(J)
	}
	g := func(x *big.Int) *big.Int { // x^3 + J x^2 + x
		xx := fMul(x, x)
		return fAdd(fAdd(fMul(xx, x), fMul(J, xx)), x)
	}
	gx1 := g(x1)
	x2 := fSub(fNeg(x1), J)
	gx2 := g(x2)
	var x, y *big.Int
	if r, ok := fSqrt(gx1); ok {
		x, y = x1, r
		if sgn0(y) != 1 {
			y = fNeg(y)
		}
	} else {
		r, ok := fSqrt(gx2)
		if !ok {
			panic("model: Elligator 2: neither g(x1) nor g(x2) is a square")
		}
		x, y = x2, r
		if sgn0(y) != 0 {
			y = fNeg(y)
		}
	}
	return x, y
}

// EncodeToCurveEdwards25519NU is encode_to_curve of the suite
// edwards25519_XMD:SHA-512_ELL2_NU_ (hash_to_field with L = 48, Elligator 2,
// rational map of 6.8.1, clear_cofactor h = 8).
func EncodeToCurveEdwards25519NU(dst, msg []byte) *BPoint {
	uniform := ExpandMessageXMDSHA512(msg, dst, 48)
	u := new(big.Int).Mod(new(big.Int).SetBytes(uniform), bcP) // OS2IP is big endian
	s, t := elligator2Curve25519(u)
	// (v, w) = (sqrt(-486664) * s / t, (s - 1) / (s + 1)); exceptional cases map to (0, 1)
	c1, ok := fSqrt(fNeg(big.NewInt(486664)))
	if !ok {
		panic("model: -486664 is not a square")
	}
	if sgn0(c1) != 0 {
		c1 = fNeg(c1)
	}
	sp1 := fAdd(s, bcOne)
	var x, y *big.Int
	if t.Sign() == 0 || sp1.Sign() == 0 {
		x, y = new(big.Int), big.NewInt(1)
	} else {
		x = fMul(fMul(c1, s), fInv0(t))
		y = fMul(fSub(s, bcOne), fInv0(sp1))
	}
	return bAffine(x, y).MulByCofactor()
}
