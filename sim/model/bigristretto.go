package model

import (
	"bytes"
	"encoding/hex"
	"fmt"
	"math/big"
)

// ristretto255 encoding and decoding, written from RFC 9496 (4.2 SQRT_RATIO_M1,
// 4.3.1 Decode, 4.3.2 Encode) over math/big and the model's own edwards25519
// arithmetic (bigcurve.go).  Nothing here calls the library under test.

func isNeg(x *big.Int) bool { return x.Bit(0) == 1 }

func ctAbs(x *big.Int) *big.Int {
	if isNeg(x) {
		return fNeg(x)
	}
	return new(big.Int).Set(x)
}

// sqrtRatioM1 is SQRT_RATIO_M1(u, v) of RFC 9496 4.2.
func sqrtRatioM1(u, v *big.Int) (wasSquare bool, r *big.Int) {
	v3 := fMul(fMul(v, v), v)
	v7 := fMul(fMul(v3, v3), v)
	e := new(big.Int).Rsh(new(big.Int).Sub(bcP, big.NewInt(5)), 3) // (p-5)/8
	r = fMul(fMul(u, v3), fPow(fMul(u, v7), e))
	check := fMul(v, fMul(r, r))
	um := new(big.Int).Mod(u, bcP)
	correct := check.Cmp(um) == 0
	flipped := check.Cmp(fNeg(um)) == 0
	flippedI := check.Cmp(fNeg(fMul(um, bcSqrtM))) == 0
	if flipped || flippedI {
		r = fMul(bcSqrtM, r)
	}
	return correct || flipped, ctAbs(r)
}

var bcInvSqrtAMinusD = func() *big.Int {
	// 1/sqrt(a - d) with a = -1; RFC 9496 fixes the representative by value.
	v, _ := new(big.Int).SetString("54469307008909316920995813868745141605393597292927456921205312896311721017578", 10)
	return v
}()

// RDecode is RFC 9496 4.3.1; nil stands for "decoding fails".
func RDecode(b []byte) *BPoint {
	if len(b) != 32 {
		return nil
	}
	s := LEToBig(b)
	if s.Cmp(bcP) >= 0 || isNeg(s) {
		return nil
	}
	ss := fMul(s, s)
	u1 := fSub(bcOne, ss)
	u2 := fAdd(bcOne, ss)
	u2s := fMul(u2, u2)
	v := fSub(fNeg(fMul(bcD, fMul(u1, u1))), u2s)
	ok, inv := sqrtRatioM1(bcOne, fMul(v, u2s))
	denX := fMul(inv, u2)
	denY := fMul(fMul(inv, denX), v)
	x := ctAbs(fMul(fMul(big.NewInt(2), s), denX))
	y := fMul(u1, denY)
	t := fMul(x, y)
	if !ok || isNeg(t) || y.Sign() == 0 {
		return nil
	}
	return &BPoint{x, y, big.NewInt(1), t}
}

// REncode is RFC 9496 4.3.2.
func REncode(p *BPoint) []byte {
	x0, y0, z0, t0 := p.X, p.Y, p.Z, p.T
	u1 := fMul(fAdd(z0, y0), fSub(z0, y0))
	u2 := fMul(x0, y0)
	_, inv := sqrtRatioM1(bcOne, fMul(u1, fMul(u2, u2)))
	den1 := fMul(inv, u1)
	den2 := fMul(inv, u2)
	zInv := fMul(fMul(den1, den2), t0)
	ix0 := fMul(x0, bcSqrtM)
	iy0 := fMul(y0, bcSqrtM)
	ench := fMul(den1, bcInvSqrtAMinusD)
	rotate := isNeg(fMul(t0, zInv))
	x, y, denInv := x0, y0, den2
	if rotate {
		x, y, denInv = iy0, ix0, ench
	}
	if isNeg(fMul(x, zInv)) {
		y = fNeg(y)
	}
	return BigToLE32(ctAbs(fMul(denInv, fSub(z0, y))))
}

// SelfTestRistretto checks the RFC 9496 A.1 encodings of small multiples of the
// generator, the constant's defining equation, decode(encode(P)) round trips and a
// few invalid encodings of A.3.
func SelfTestRistretto() error {
	// INVSQRT_A_MINUS_D^2 * (a - d) == 1
	amd := fSub(fNeg(bcOne), bcD)
	if fMul(fMul(bcInvSqrtAMinusD, bcInvSqrtAMinusD), amd).Cmp(bcOne) != 0 {
		return fmt.Errorf("ristretto model KAT: INVSQRT_A_MINUS_D is not 1/sqrt(a-d)")
	}
	want := []string{
		"0000000000000000000000000000000000000000000000000000000000000000",
		"e2f2ae0a6abc4e71a884a961c500515f58e30b6aa582dd8db6a65945e08d2d76",
		"6a493210f7499cd17fecb510ae0cea23a110e8d5b901f8acadd3095c73a3b919",
		"94741f5d5d52755ece4f23f044ee27d5d1ea1e2bd196b462166b16152a9d0259",
	}
	B := BBase()
	acc := BIdentity()
	for i, w := range want {
		got := REncode(acc)
		if hex.EncodeToString(got) != w {
			return fmt.Errorf("ristretto model KAT: encode(%d*B) = %x, RFC 9496 gives %s", i, got, w)
		}
		d := RDecode(got)
		if d == nil || !bytes.Equal(REncode(d), got) {
			return fmt.Errorf("ristretto model KAT: decode(encode(%d*B)) does not round-trip", i)
		}
		acc = acc.Add(B)
	}
	// the four representatives of one element (P + 4-torsion) encode alike: check with P + (0,-1)
	t2 := bAffine(new(big.Int), fNeg(bcOne))
	if !bytes.Equal(REncode(B.Add(t2)), REncode(B)) {
		return fmt.Errorf("ristretto model KAT: B and B + T2 encode differently")
	}
	for _, bad := range []string{
		"00ffffffffffffffffffffffffffffffffffffffffffffffffffffffffffffff", // non-canonical field encoding
		"0100000000000000000000000000000000000000000000000000000000000000", // negative
		"26948d35ca62e643e26a83177332e6b6afeb9d08e4268b650f1f5bbd8d81d371", // non-square x^2
	} {
		b, _ := hex.DecodeString(bad)
		if RDecode(b) != nil {
			return fmt.Errorf("ristretto model KAT: invalid encoding %s accepted", bad)
		}
	}
	return nil
}
