package model

import (
	"bytes"
	"crypto/sha512"
	"math/big"
)

// Schnorrkel (sr25519) protocol logic over the Merlin model and math/big: key
// expansion (uniform and Ed25519-style), secret-key generation from an entropy
// stream, witness scalar, challenge and s.  Group operations come from the model's
// own edwards25519 / ristretto255 code (bigcurve.go, bigristretto.go); as first
// written they were passed in as functions backed by the library.

var GroupL, _ = new(big.Int).SetString("7237005577332262213973186563042994240857116359379907606001950938285454250989", 10)

func LEToBig(b []byte) *big.Int {
	r := make([]byte, len(b))
	for i := range b {
		r[len(b)-1-i] = b[i]
	}
	return new(big.Int).SetBytes(r)
}

func BigToLE32(x *big.Int) []byte {
	b := x.Bytes()
	out := make([]byte, 32)
	for i := range b {
		if i < 32 {
			out[i] = b[len(b)-1-i]
		}
	}
	return out
}

func ModL(b []byte) *big.Int { return new(big.Int).Mod(LEToBig(b), GroupL) }

// SrSecret is a secret key: canonical scalar (little endian) and 32-byte nonce.
type SrSecret struct {
	Key   []byte
	Nonce []byte
}

func (s SrSecret) Bytes() []byte { return append(append([]byte{}, s.Key...), s.Nonce...) }

// SrExpandUniform: MiniSecretKey -> SecretKey through Merlin ("ExpandSecretKeys").
func SrExpandUniform(mini []byte) SrSecret {
	t := MNew("ExpandSecretKeys")
	t.Append("mini", mini)
	wide := t.Challenge("sk", 64)
	return SrSecret{BigToLE32(ModL(wide)), t.Challenge("no", 32)}
}

// SrExpandEd25519: SHA-512, clamp, divide by the cofactor.
func SrExpandEd25519(mini []byte) SrSecret {
	h := sha512.Sum512(mini)
	k := append([]byte{}, h[:32]...)
	k[0] &= 248
	k[31] &= 63
	k[31] |= 64
	return SrSecret{BigToLE32(new(big.Int).Rsh(LEToBig(k), 3)), append([]byte{}, h[32:]...)}
}

// SrFromEd25519Bytes: 64 bytes of an expanded Ed25519 key (clamped scalar || nonce).
// ok is false when the scalar is not clamped as schnorrkel requires.
func SrFromEd25519Bytes(b []byte) (SrSecret, bool) {
	if len(b) != 64 {
		return SrSecret{}, false
	}
	s := b[:32]
	if s[0]&7 != 0 || s[31]&0xc0 != 0x40 {
		return SrSecret{}, false
	}
	return SrSecret{BigToLE32(new(big.Int).Rsh(LEToBig(s), 3)), append([]byte{}, b[32:]...)}, true
}

// SrGenerateSecret: 64 entropy bytes reduced mod L, then a 32-byte nonce.
func SrGenerateSecret(entropy []byte) SrSecret {
	return SrSecret{BigToLE32(ModL(entropy[:64])), append([]byte{}, entropy[64:96]...)}
}

// SrTranscript builds the signing transcript for (context, label, data): label is
// "sign-bytes", "sign-256", "sign-512" or "sign-XoF".
func SrTranscript(context []byte, label string, data []byte) *MTranscript {
	t := MNew("SigningContext")
	t.Append("", context)
	t.Append(label, data)
	return t
}

// SrSign computes the signature bytes from the transcript, the secret key, the
// public key bytes and the 32 entropy bytes that were delivered.  mulBase maps a
// canonical scalar (LE) to the compressed Ristretto encoding of scalar*B.
func SrSign(t0 *MTranscript, sk SrSecret, pk []byte, entropy []byte, mulBase func([]byte) []byte) []byte {
	t := t0.Clone()
	t.Append("proto-name", []byte("Schnorr-sig"))
	t.Append("sign:pk", pk)
	r := t.BuildRng()
	r.Rekey("signing", sk.Nonce)
	r.Finalize(entropy[:32])
	rs := ModL(r.Read(64))
	R := mulBase(BigToLE32(rs))
	t.Append("sign:R", R)
	k := ModL(t.Challenge("sign:c", 64))
	s := new(big.Int).Mul(k, LEToBig(sk.Key))
	s.Add(s, rs).Mod(s, GroupL)
	sig := append(append([]byte{}, R...), BigToLE32(s)...)
	sig[63] |= 128
	return sig
}

// SrChallenge returns the verification challenge k (LE, canonical) for (pk, R).
func SrChallenge(t0 *MTranscript, pk, R []byte) []byte {
	t := t0.Clone()
	t.Append("proto-name", []byte("Schnorr-sig"))
	t.Append("sign:pk", pk)
	t.Append("sign:R", R)
	return BigToLE32(ModL(t.Challenge("sign:c", 64)))
}

// SrDecodeSignature applies the encoding rules of a 64-byte signature that do
// not need group arithmetic: length, marker bit, s < L.  It returns R bytes and
// the canonical s bytes.
func SrDecodeSignature(b []byte) (R, s []byte, ok bool) {
	if len(b) != 64 || b[63]&128 == 0 {
		return nil, nil, false
	}
	s = append([]byte{}, b[32:]...)
	s[31] &= 127
	if LEToBig(s).Cmp(GroupL) >= 0 {
		return nil, nil, false
	}
	return append([]byte{}, b[:32]...), s, true
}

// SrMulBase: compressed ristretto255 encoding of s*B for a canonical scalar (LE),
// computed with the model's own group arithmetic.
func SrMulBase(sLE []byte) []byte { return REncode(BBase().Mul(LEToBig(sLE))) }

// SrVerify is the schnorrkel verification decision for delivered bytes:
// encodings (length, marker, s < L, canonical ristretto255 R and public key),
// challenge derivation and the equation encode(s*B - k*A) == R, all in the model.
func SrVerify(t0 *MTranscript, pk, sig []byte) bool {
	R, s, ok := SrDecodeSignature(sig)
	if !ok || len(pk) != 32 {
		return false
	}
	A := RDecode(pk)
	if A == nil || RDecode(R) == nil {
		return false
	}
	k := LEToBig(SrChallenge(t0, pk, R))
	d := BBase().Mul(LEToBig(s)).Sub(A.Mul(k))
	return bytes.Equal(REncode(d), R)
}
