package core

import (
	"encoding/json"
	"os"
	"time"
)

type Rec = [NStreams][]uint32

// BuildInfo names the build a run was executed on; a replay rebuilds the same
// variant from the current tree.
type BuildInfo struct {
	Variant      string `json:"variant"`
	Tags         string `json:"tags"`
	Godebug      string `json:"godebug"`
	Race         bool   `json:"race"`
	Instrumented bool   `json:"instrumented"`
}

// Replay is the on-disk replay file.
type Replay struct {
	Property   string    `json:"property"`
	Phase      string    `json:"phase"`
	Class      string    `json:"class"`
	Key        string    `json:"key"`
	Detail     string    `json:"detail"`
	BaseSeed   uint64    `json:"seed"`
	RunSeed    uint64    `json:"run_seed"`
	RunIndex   uint64    `json:"run_index"`
	Tier       string    `json:"tier"`
	Build      BuildInfo `json:"build"`
	RefVariant string    `json:"reference_variant,omitempty"` // differential replays: the other build
	// FromSeed: the tape is not recorded (the process died with a fatal error of the Go runtime);
	// the replay regenerates the run from the seed, which is the same pure function of the code.
	FromSeed bool `json:"from_seed,omitempty"`
	// History-dependent violations (the library keeps state between independent calls):
	// the failing run only fails after the runs its worker process executed before it.
	// With NeedsPrefix the replay first re-executes those runs (seed fan-out is a pure
	// function of the base seed and the indices) and then the recorded tape TapeOrig.
	NeedsPrefix  bool                `json:"needs_process_history,omitempty"`
	PrefixStart  uint64              `json:"history_first_index"`
	PrefixStride uint64              `json:"history_stride"`
	PrefixCount  uint64              `json:"history_runs_before"`
	TapeOrig     map[string][]uint32 `json:"tape_as_recorded,omitempty"`
	Tape         map[string][]uint32 `json:"tape"`
	Trace        []string            `json:"trace"`
	RepoTree     string              `json:"repo_tree,omitempty"`
	Minimised    bool                `json:"minimised"`
	ShrinkExecs  int                 `json:"shrink_execs"`
	TapeLenOrig  int                 `json:"tape_len_before_shrink"`
	TapeLen      int                 `json:"tape_len"`
}

func (rp *Replay) Rec() Rec {
	var rec Rec
	for i, n := range StreamNames {
		rec[i] = rp.Tape[n]
	}
	return rec
}

func (rp *Replay) OrigRec() Rec {
	var rec Rec
	for i, n := range StreamNames {
		rec[i] = rp.TapeOrig[n]
	}
	return rec
}

func (rp *Replay) SetRec(rec Rec) {
	rp.Tape = map[string][]uint32{}
	n := 0
	for i, name := range StreamNames {
		if rec[i] == nil {
			rec[i] = []uint32{}
		}
		rp.Tape[name] = rec[i]
		n += len(rec[i])
	}
	rp.TapeLen = n
}

func (rp *Replay) Violation() Violation {
	return Violation{rp.Property, rp.Class, rp.Key, rp.Detail}
}

func WriteJSON(path string, v interface{}) error {
	b, err := json.MarshalIndent(v, "", " ")
	if err != nil {
		return err
	}
	tmp := path + ".tmp"
	if err := os.WriteFile(tmp, append(b, '\n'), 0o644); err != nil {
		return err
	}
	return os.Rename(tmp, path)
}

func ReadReplay(path string) (*Replay, error) {
	b, err := os.ReadFile(path)
	if err != nil {
		return nil, err
	}
	var rp Replay
	if err := json.Unmarshal(b, &rp); err != nil {
		return nil, err
	}
	return &rp, nil
}

func recLen(r Rec) int {
	n := 0
	for i := range r {
		n += len(r[i])
	}
	return n
}

func cloneRec(r Rec) Rec {
	var o Rec
	for i := range r {
		o[i] = append([]uint32(nil), r[i]...)
	}
	return o
}

// Shrink minimises rec while exec(rec) still reports a violation with the same
// (class, key) as target.  exec must be a pure function of the tape.  The
// wall-clock budget only bounds the effort; it cannot change what a given tape
// does.
func Shrink(rec Rec, target Violation, exec func(Rec) []Violation, maxExecs int, budget time.Duration) (Rec, int) {
	start := time.Now()
	execs := 0
	same := func(c Rec) bool {
		if execs >= maxExecs || time.Since(start) > budget {
			return false
		}
		execs++
		for _, v := range exec(c) {
			if SameViolation(target, v) {
				return true
			}
		}
		return false
	}
	best := cloneRec(rec)
	exhausted := func() bool { return execs >= maxExecs || time.Since(start) > budget }

	for round := 0; round < 6 && !exhausted(); round++ {
		before := recLen(best)
		sum0 := recSum(best)
		for s := NStreams - 1; s >= 0; s-- {
			// 1. drop tail
			for n := len(best[s]) / 2; n >= 1 && !exhausted(); {
				if n > len(best[s]) {
					n = len(best[s])
					if n == 0 {
						break
					}
				}
				c := cloneRec(best)
				c[s] = c[s][:len(c[s])-n]
				if same(c) {
					best = c
				} else {
					n /= 2
				}
			}
			// 2. delete blocks
			for k := len(best[s]) / 2; k >= 1 && !exhausted(); k /= 2 {
				for i := 0; i+k <= len(best[s]) && !exhausted(); {
					c := cloneRec(best)
					c[s] = append(c[s][:i], c[s][i+k:]...)
					if same(c) {
						best = c
					} else {
						i += k
					}
				}
			}
			// 3. zero blocks
			for k := len(best[s]) / 2; k >= 1 && !exhausted(); k /= 2 {
				for i := 0; i+k <= len(best[s]) && !exhausted(); i += k {
					allz := true
					for j := i; j < i+k; j++ {
						if best[s][j] != 0 {
							allz = false
						}
					}
					if allz {
						continue
					}
					c := cloneRec(best)
					for j := i; j < i+k; j++ {
						c[s][j] = 0
					}
					if same(c) {
						best = c
					}
				}
			}
			// 4. lower individual draws
			for i := 0; i < len(best[s]) && !exhausted(); i++ {
				for best[s][i] > 0 && !exhausted() {
					v := best[s][i]
					c := cloneRec(best)
					c[s][i] = v / 2
					if same(c) {
						best = c
						continue
					}
					c = cloneRec(best)
					c[s][i] = v - 1
					if same(c) {
						best = c
						continue
					}
					break
				}
			}
		}
		if recLen(best) == before && recSum(best) == sum0 {
			break
		}
	}
	return best, execs
}

func recSum(r Rec) uint64 {
	var s uint64
	for i := range r {
		for _, v := range r[i] {
			s += uint64(v)
		}
	}
	return s
}

// SameViolation is the identity used while shrinking and replaying.  Data-race
// reports are matched by class only: the race runtime suppresses reports it
// considers equivalent to earlier ones of the same process, so which of several
// stack pairs of one race is printed depends on the process history.
func SameViolation(target, v Violation) bool {
	if target.Class != v.Class {
		return false
	}
	if target.Class == "data-race" {
		return true
	}
	return target.Key == v.Key
}
