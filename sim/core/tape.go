package core

import (
	"syscall"
	"unsafe"
)

// Tape streams.  Keeping workload, schedule and fault choices on separate
// streams means that deleting one operation does not shift the meaning of the
// scheduling decisions (and vice versa) while shrinking.
const (
	SW = iota // workload shape and operation arguments
	SS        // scheduling decisions
	SF        // fault / delivery decisions of the simulated I/O
	NStreams
)

var StreamNames = [NStreams]string{"workload", "schedule", "fault"}

// Tape is the single source of choice of one run.  In generation mode every
// Draw comes from the stream's PRNG and is recorded; in replay mode draws are
// served from the record, and an exhausted record yields 0 — by convention the
// simplest choice (no fault, no preemption, shortest length).
type Tape struct {
	replay bool
	rng    [NStreams]Rng
	rec    [NStreams][]uint32
	pos    [NStreams]int
	// jfd, when > 0, receives every generated draw as it is made (5 bytes: stream, value),
	// so that the driver can recover the tape of a run whose process died (a fatal error of
	// the Go runtime inside the library cannot be recovered in-process).
	jfd int
}

// JournalTo makes a generating tape write each draw to the file descriptor as it is made.
func (t *Tape) JournalTo(fd int) { t.jfd = fd }

//go:norace
func journal(fd, s int, v uint32) {
	b := [5]byte{byte(s), byte(v), byte(v >> 8), byte(v >> 16), byte(v >> 24)}
	syscall.Syscall(syscall.SYS_WRITE, uintptr(fd), uintptr(unsafe.Pointer(&b[0])), 5)
}

// ReadJournal decodes a journal written through JournalTo.
func ReadJournal(data []byte) Rec {
	var rec Rec
	for i := 0; i+5 <= len(data); i += 5 {
		s := int(data[i])
		if s >= NStreams {
			break
		}
		rec[s] = append(rec[s], uint32(data[i+1])|uint32(data[i+2])<<8|uint32(data[i+3])<<16|uint32(data[i+4])<<24)
	}
	return rec
}

func NewTape(seed uint64) *Tape {
	t := &Tape{}
	for i := 0; i < NStreams; i++ {
		t.rng[i] = NewRng(Mix(seed, uint64(i)+1))
		t.rec[i] = make([]uint32, 0, 256)
	}
	return t
}

func ReplayTape(rec [NStreams][]uint32) *Tape {
	t := &Tape{replay: true}
	for i := 0; i < NStreams; i++ {
		t.rec[i] = append([]uint32(nil), rec[i]...)
	}
	return t
}

// Draw returns a value in [0,n).  n<=1 consumes nothing.
//
//go:norace
func (t *Tape) Draw(s int, n int) int {
	if n <= 1 {
		return 0
	}
	p := t.pos[s]
	t.pos[s] = p + 1
	if t.replay {
		if p < len(t.rec[s]) {
			return int(t.rec[s][p] % uint32(n))
		}
		return 0
	}
	v := uint32(t.rng[s].Next()>>11) % uint32(n)
	if p == cap(t.rec[s]) {
		grow(&t.rec[s])
	}
	t.rec[s] = t.rec[s][:p+1]
	t.rec[s][p] = v
	if t.jfd > 0 {
		journal(t.jfd, s, v)
	}
	return int(v)
}

//go:norace
func grow(b *[]uint32) {
	nb := make([]uint32, len(*b), 2*cap(*b)+16)
	for i := range *b {
		nb[i] = (*b)[i]
	}
	*b = nb
}

// Record returns the draws actually consumed (generation: everything drawn;
// replay: the served prefix, padded with zeros where the record was short).
func (t *Tape) Record() [NStreams][]uint32 {
	var out [NStreams][]uint32
	for i := 0; i < NStreams; i++ {
		n := t.pos[i]
		out[i] = make([]uint32, n)
		copy(out[i], t.rec[i])
	}
	return out
}

func (t *Tape) Used(s int) int { return t.pos[s] }

// Convenience wrappers for the workload stream.

func (t *Tape) W(n int) int { return t.Draw(SW, n) }
func (t *Tape) F(n int) int { return t.Draw(SF, n) }

// Bool with probability num/den on stream s (0 = false is the simple choice).
func (t *Tape) Chance(s, num, den int) bool { return t.Draw(s, den) >= den-num }

// Range draws from [lo,hi].
func (t *Tape) Range(s, lo, hi int) int { return lo + t.Draw(s, hi-lo+1) }

// Pick draws an element index weighted toward... no weighting: uniform.
func (t *Tape) Pick(s int, n int) int { return t.Draw(s, n) }

// Bytes returns n bytes determined by one draw.
func (t *Tape) Bytes(s int, n int) []byte {
	return Expand(uint32(t.Draw(s, 1<<30)), n)
}
