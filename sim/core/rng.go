// Package core holds the pieces every simulated check shares: the private PRNG,
// the choice tape (generation / replay), the per-run event log and fingerprint,
// violation records, replay files and the tape shrinker.
//
// Everything that can be reached from the scheduler while tasks are parked
// (Draw, Next, NextSeq, counters) carries //go:norace and uses neither maps
// nor channels: under the race detector the tasks look concurrent (the token
// hand-off is invisible to it, see rt), so harness state shared between tasks
// must be invisible too.  //go:norace is per function and is not inherited.
package core

// Rng is xoshiro256**; own code so that the stream never changes with the Go
// release.  math/rand is not used anywhere in the harness.
type Rng struct{ s [4]uint64 }

//go:norace
func splitmix(x *uint64) uint64 {
	*x += 0x9e3779b97f4a7c15
	z := *x
	z = (z ^ (z >> 30)) * 0xbf58476d1ce4e5b9
	z = (z ^ (z >> 27)) * 0x94d049bb133111eb
	return z ^ (z >> 31)
}

//go:norace
func NewRng(seed uint64) Rng {
	var r Rng
	x := seed
	for i := range r.s {
		r.s[i] = splitmix(&x)
	}
	return r
}

//go:norace
func rotl(x uint64, k uint) uint64 { return (x << k) | (x >> (64 - k)) }

//go:norace
func (r *Rng) Next() uint64 {
	s := &r.s
	res := rotl(s[1]*5, 7) * 9
	t := s[1] << 17
	s[2] ^= s[0]
	s[3] ^= s[1]
	s[1] ^= s[2]
	s[0] ^= s[3]
	s[2] ^= t
	s[3] = rotl(s[3], 45)
	return res
}

// Mix folds its arguments into one 64-bit value (seed fan-out).
//
//go:norace
func Mix(vs ...uint64) uint64 {
	x := uint64(0x5851f42d4c957f2d)
	for _, v := range vs {
		x ^= v
		_ = splitmix(&x)
		x = splitmix(&x) ^ v
	}
	return splitmix(&x)
}

// MixS hashes a string (FNV-1a) for use as a Mix argument.
func MixS(s string) uint64 {
	h := uint64(0xcbf29ce484222325)
	for i := 0; i < len(s); i++ {
		h ^= uint64(s[i])
		h *= 0x100000001b3
	}
	return h
}

// Expand fills n pseudo-random bytes from a 32-bit seed.  Bulk content
// (messages, entropy) is one tape draw plus this expansion, so that tapes stay
// short and shrinkable.
func Expand(seed uint32, n int) []byte {
	r := NewRng(uint64(seed)*0x9e3779b1 + 0x1234567)
	b := make([]byte, n)
	for i := 0; i < n; i += 8 {
		v := r.Next()
		for j := 0; j < 8 && i+j < n; j++ {
			b[i+j] = byte(v >> (8 * uint(j)))
		}
	}
	return b
}
