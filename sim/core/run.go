package core

import (
	"crypto/sha256"
	"encoding/binary"
	"fmt"
	"sort"
	"strings"
)

// Violation identifies one failure.  (Property, Class, Key) is the identity used
// by the shrinker ("same violation persists") and by known_findings.json; Detail
// is for humans and may differ between two occurrences of the same violation.
type Violation struct {
	Property string `json:"property"`
	Class    string `json:"class"`
	Key      string `json:"key"`
	Detail   string `json:"detail"`
}

func (v Violation) ID() string { return v.Property + "/" + v.Class + "/" + v.Key }

const maxEvents = 2000000

// An event is stored unformatted and rendered in Finish (main goroutine, after
// the join).  Formatting inside a task would go through fmt's sync.Pool, whose
// Put/Get carry release/acquire semantics under the race detector: two tasks
// logging around their operations would then look ordered, and races between
// those operations would be masked (and, because the pool drops entries at
// random in race mode, masked non-deterministically).
type event struct {
	seq    uint64
	format string
	args   []interface{}
}

// H is a byte string that renders as Hex8 when the event is finally formatted.
type H []byte

func (h H) String() string { return Hex8(h) }

// Log is an append-only event list private to one task (or to the main
// goroutine).  Private per task so that, under the race detector, harness
// logging never looks like a race between tasks; merged by sequence number
// after the join.
type Log struct {
	run     *Run
	task    int
	ev      []event
	fails   []Violation
	failEv  []uint64
	failFmt []event
}

// Counter ids are registered at init time; increments are norace array writes.
var counterNames []string

func RegCounter(name string) int {
	counterNames = append(counterNames, name)
	return len(counterNames) - 1
}

func CounterNames() []string { return counterNames }

// RenameCounter gives a counter slot registered at init its final name (slots whose
// names are only known once a lazily built table exists).  A name starting with '~'
// marks a slot that was never named; reporters skip those.
func RenameCounter(i int, name string) { counterNames[i] = name }

// Run is the context of one simulated execution.
type Run struct {
	Property string
	Phase    string
	Seed     uint64 // per-run seed (after fan-out)
	Index    uint64
	T        *Tape
	Verbose  bool // keep the rendered event log (replay / failing runs)

	seq      uint64
	steps    uint64
	counters []int64
	logs     []*Log
	Main     *Log

	// Set by the workload.
	Nontrivial bool
	// filled by Finish
	Fingerprint [32]byte
	Violations  []Violation
	Trace       []string
}

func NewRun(prop, phase string, seed, index uint64, t *Tape, verbose bool) *Run {
	r := &Run{Property: prop, Phase: phase, Seed: seed, Index: index, T: t, Verbose: verbose}
	r.counters = make([]int64, len(counterNames))
	r.Main = r.NewLog(-1)
	return r
}

func (r *Run) NewLog(task int) *Log {
	l := &Log{run: r, task: task}
	r.logs = append(r.logs, l)
	return l
}

// NextSeq is the global event sequence number: the only notion of "time" that
// histories are stamped with.
//
//go:norace
func (r *Run) NextSeq() uint64 { r.seq++; return r.seq }

//go:norace
func (r *Run) Step() { r.steps++ }

//go:norace
func (r *Run) AddSteps(n uint64) { r.steps += n }

//go:norace
func (r *Run) Steps() uint64 { return r.steps }

//go:norace
func (r *Run) Count(id int) { r.counters[id]++ }

//go:norace
func (r *Run) CountN(id int, n int64) { r.counters[id] += n }

func (r *Run) Counters() []int64 { return r.counters }

// Ev records an event.  Never draws, never reads a clock.
func (l *Log) Ev(format string, args ...interface{}) uint64 {
	seq := l.run.NextSeq()
	if seq > maxEvents {
		panic("harness: runaway run (more than 2M events); a workload loop does not terminate on this tape")
	}
	l.ev = append(l.ev, event{seq, format, args})
	return seq
}

// Fail records a violation of the run's property.
func (l *Log) Fail(class, key, format string, args ...interface{}) {
	seq := l.Ev("VIOLATION "+class+"/"+key+": "+format, args...)
	l.fails = append(l.fails, Violation{l.run.Property, class, key, ""})
	l.failEv = append(l.failEv, seq)
	l.failFmt = append(l.failFmt, event{seq, format, args})
}

// FailSilently records a violation without adding an event to the log, for facts that
// must not enter the run's fingerprint (differential workloads compare fingerprints
// across builds; what one build does under concurrency is reported separately).
func (l *Log) FailSilently(class, key, format string, args ...interface{}) {
	l.fails = append(l.fails, Violation{l.run.Property, class, key, ""})
	l.failEv = append(l.failEv, 0)
	l.failFmt = append(l.failFmt, event{0, format, args})
}

func (l *Log) Fails() []Violation { return l.fails }

func (r *Run) Ev(format string, args ...interface{}) uint64 { return r.Main.Ev(format, args...) }
func (r *Run) Fail(class, key, format string, args ...interface{}) {
	r.Main.Fail(class, key, format, args...)
}

// Finish merges the task logs, computes the fingerprint and collects
// violations.  Call after every task has been joined.
func (r *Run) Finish() {
	var all []event
	taskOf := map[uint64]int{}
	for _, l := range r.logs {
		all = append(all, l.ev...)
		for _, e := range l.ev {
			taskOf[e.seq] = l.task
		}
		for i := range l.fails {
			l.fails[i].Detail = fmt.Sprintf(l.failFmt[i].format, l.failFmt[i].args...)
		}
		r.Violations = append(r.Violations, l.fails...)
	}
	sort.Slice(all, func(i, j int) bool { return all[i].seq < all[j].seq })
	h := sha256.New()
	var b [8]byte
	texts := make([]string, len(all))
	for i, e := range all {
		texts[i] = fmt.Sprintf(e.format, e.args...)
		binary.LittleEndian.PutUint64(b[:], e.seq)
		h.Write(b[:])
		h.Write([]byte{byte(taskOf[e.seq])})
		h.Write([]byte(texts[i]))
		h.Write([]byte{0})
	}
	h.Sum(r.Fingerprint[:0])
	if r.Verbose || len(r.Violations) > 0 {
		r.Trace = make([]string, 0, len(all))
		for i, e := range all {
			t := taskOf[e.seq]
			who := "main"
			if t >= 0 {
				who = fmt.Sprintf("t%d", t)
			}
			r.Trace = append(r.Trace, fmt.Sprintf("%05d %-4s %s", e.seq, who, texts[i]))
		}
	}
	// stable order of violations
	sort.SliceStable(r.Violations, func(i, j int) bool { return r.Violations[i].ID() < r.Violations[j].ID() })
}

func (r *Run) FP64() uint64 { return binary.LittleEndian.Uint64(r.Fingerprint[:8]) }

// Hex8 renders a short digest of bytes for logs.
func Hex8(b []byte) string {
	if b == nil {
		return "nil"
	}
	if len(b) <= 8 {
		return fmt.Sprintf("%x", b)
	}
	s := sha256.Sum256(b)
	return fmt.Sprintf("#%x/%d", s[:6], len(b))
}

func TrimTrace(tr []string, max int) []string {
	if len(tr) <= max {
		return tr
	}
	out := append([]string{}, tr[:max/2]...)
	out = append(out, fmt.Sprintf("... %d events elided ...", len(tr)-max))
	out = append(out, tr[len(tr)-max/2:]...)
	return out
}

func JoinKeys(parts ...string) string { return strings.Join(parts, "/") }
