// Package simio holds the simulator-owned I/O stubs: the fault-injecting entropy
// reader, hash / XOF wrappers, the corrupting wire and an adversarial (but
// contract-abiding) cache.Cache.
package simio

import (
	"errors"
	"io"

	"verifsim/core"
)

var ErrInjected = errors.New("simio: injected read error")

// Content profiles of an entropy stream.
const (
	ContentPRNG = iota
	ContentZero
	ContentFF
	ContentRepeat
	ContentCounter
	NContent
)

var (
	cFull     = core.RegCounter("entropy.read_full")
	cShort    = core.RegCounter("entropy.read_short")
	cOne      = core.RegCounter("entropy.read_single_byte")
	cZeroLen  = core.RegCounter("entropy.read_zero_bytes_nil_error")
	cErr0     = core.RegCounter("entropy.error_with_no_data")
	cErrN     = core.RegCounter("entropy.error_with_partial_data")
	cEOF      = core.RegCounter("entropy.clean_eof")
	cDegen    = core.RegCounter("entropy.degenerate_content_streams")
	cStreams  = core.RegCounter("entropy.streams")
	cErrInFul = core.RegCounter("entropy.error_landed_inside_a_multi_read_fill")
)

// Entropy is an io.Reader whose content and delivery are decided by the tape.
type Entropy struct {
	r       *core.Run
	t       *core.Tape
	content int
	seed    uint32
	rep     byte
	rng     core.Rng
	off     int
	// fault plan
	chunky  bool // tape-driven chunking on every Read
	errAt   int  // absolute offset at which the stream fails (-1 never)
	errKind int  // 0: (0,err)  1: (n>0,err) when n>0 is possible  2: clean io.EOF
	zeroRun int
	failed  bool

	fixed         []byte
	fixedChunk    int
	lastFillStart int
	src           io.Reader // content comes from a wrapped reader (XOF / hash streams)

	Delivered []byte // exactly the bytes handed to the consumer
	Reads     int
	Errored   bool
}

// EntropyCfg selects what may happen; the tape decides what does.
type EntropyCfg struct {
	Chunking   bool // short / single-byte / zero-length reads
	Degenerate bool // may pick a degenerate content profile
	Errors     bool // may fail at an offset below ErrWindow
	ErrWindow  int
}

// NewEntropy draws the stream's plan from the fault stream of the tape.
func NewEntropy(r *core.Run, cfg EntropyCfg) *Entropy {
	t := r.T
	e := &Entropy{r: r, t: t, errAt: -1}
	r.Count(cStreams)
	e.seed = uint32(t.Draw(core.SF, 1<<30))
	e.rng = core.NewRng(uint64(e.seed)*2654435761 + 99)
	if cfg.Degenerate && t.Draw(core.SF, 4) == 3 {
		e.content = 1 + t.Draw(core.SF, NContent-1)
		e.rep = byte(t.Draw(core.SF, 256))
		r.Count(cDegen)
	}
	if cfg.Chunking {
		e.chunky = t.Draw(core.SF, 3) != 0
	}
	if cfg.Errors && t.Draw(core.SF, 3) == 2 {
		w := cfg.ErrWindow
		if w <= 0 {
			w = 64
		}
		e.errAt = t.Draw(core.SF, w)
		e.errKind = t.Draw(core.SF, 3)
	}
	return e
}

// WrapReader delivers the bytes of src (which must never fail, e.g. a SHAKE
// instance) with tape-driven chunking and errors: the simulator-owned version of
// a caller-supplied XOF.
func WrapReader(r *core.Run, src io.Reader, cfg EntropyCfg) *Entropy {
	cfg.Degenerate = false
	e := NewEntropy(r, cfg)
	e.src = src
	return e
}

// FixedEntropy serves exactly b (PRNG continues afterwards), with a fixed chunk
// size and an optional error; used by the fault enumerations.
func FixedEntropy(r *core.Run, b []byte, errAt, errKind int) *Entropy {
	e := &Entropy{r: r, t: nil, errAt: errAt, errKind: errKind}
	e.content = -1
	e.Delivered = nil
	e.fixed = append([]byte(nil), b...)
	return e
}

func (e *Entropy) byteAt() byte {
	switch e.content {
	case ContentZero:
		return 0
	case ContentFF:
		return 0xff
	case ContentRepeat:
		return e.rep
	case ContentCounter:
		return byte(e.off)
	}
	return byte(e.rng.Next())
}

func (e *Entropy) Read(p []byte) (int, error) {
	e.Reads++
	if len(p) == 0 {
		return 0, nil
	}
	if e.failed {
		return 0, e.err()
	}
	n := len(p)
	if e.fixedChunk > 0 && n > e.fixedChunk {
		n = e.fixedChunk
	}
	if e.chunky && e.t != nil {
		switch e.t.Draw(core.SF, 6) {
		case 0, 1:
			e.count(cFull)
		case 2, 3:
			if n > 1 {
				n = 1 + e.t.Draw(core.SF, n-1)
				e.count(cShort)
			}
		case 4:
			n = 1
			e.count(cOne)
		case 5:
			if e.zeroRun < 2 {
				e.zeroRun++
				e.count(cZeroLen)
				return 0, nil
			}
		}
	} else {
		e.count(cFull)
	}
	e.zeroRun = 0
	if e.errAt >= 0 && e.off+n > e.errAt {
		n = e.errAt - e.off
		e.failed = true
		e.Errored = true
		if e.off > e.startOfFill(p) {
			e.count(cErrInFul)
		}
		if n > 0 && e.errKind == 1 {
			e.fill(p[:n])
			e.count(cErrN)
			return n, e.err()
		}
		if n > 0 {
			// deliver the data first; the error arrives with the next call
			e.fill(p[:n])
			return n, nil
		}
		if e.errKind == 2 {
			e.count(cEOF)
		} else {
			e.count(cErr0)
		}
		return 0, e.err()
	}
	e.fill(p[:n])
	return n, nil
}

func (e *Entropy) startOfFill(p []byte) int { return e.lastFillStart }

func (e *Entropy) err() error {
	if e.errKind == 2 {
		return io.EOF
	}
	return ErrInjected
}

func (e *Entropy) count(id int) {
	if e.r != nil {
		e.r.Count(id)
	}
}

func (e *Entropy) fill(p []byte) {
	if e.src != nil {
		if _, err := io.ReadFull(e.src, p); err != nil {
			panic("simio: wrapped source failed: " + err.Error())
		}
		e.off += len(p)
		e.Delivered = append(e.Delivered, p...)
		return
	}
	for i := range p {
		if e.content == -1 {
			if e.off < len(e.fixed) {
				p[i] = e.fixed[e.off]
			} else {
				p[i] = byte(e.off * 7)
			}
		} else {
			p[i] = e.byteAt()
		}
		e.off++
	}
	e.Delivered = append(e.Delivered, p...)
}

// Offset is the number of bytes delivered so far.
func (e *Entropy) Offset() int { return e.off }

// MarkFill lets a workload tell the reader that a new logical fill (one
// io.ReadFull by the library) starts here, for the "error landed inside a
// multi-read fill" probe.
func (e *Entropy) MarkFill() { e.lastFillStart = e.off }

// WillFail reports whether the plan contains an error below offset n.
func (e *Entropy) WillFail(n int) bool { return e.errAt >= 0 && e.errAt < n }

// SetChunk forces a fixed maximum chunk size (fault enumerations).
func (e *Entropy) SetChunk(n int) { e.fixedChunk = n }
