package simio

import (
	"github.com/oasisprotocol/curve25519-voi/curve"
	"github.com/oasisprotocol/curve25519-voi/primitives/ed25519"

	"verifsim/core"
)

var (
	cCacheGet      = core.RegCounter("stubcache.get")
	cCacheHit      = core.RegCounter("stubcache.hit")
	cCacheSpurious = core.RegCounter("stubcache.fault.spurious_miss")
	cCacheDropPut  = core.RegCounter("stubcache.fault.dropped_put")
	cCacheEvict    = core.RegCounter("stubcache.fault.eviction_at_call")
)

// Cache is a cache.Cache that is legal by the interface contract ("Get returns
// the key's expanded form or nil") but adversarial: spurious misses, silently
// dropped Puts, eviction at any call, all decided by the fault stream of the
// tape.  It never returns another key's entry (that would be a contract
// violation by the stub, not a fault).
type Cache struct {
	r    *core.Run
	keys []curve.CompressedEdwardsY // insertion order (no map iteration anywhere)
	vals []*ed25519.ExpandedPublicKey
	rate int // one fault in `rate` calls per kind; 0 = never
}

func NewCache(r *core.Run, rate int) *Cache { return &Cache{r: r, rate: rate} }

func (c *Cache) find(k *curve.CompressedEdwardsY) int {
	for i := range c.keys {
		if c.keys[i] == *k {
			return i
		}
	}
	return -1
}

func (c *Cache) fault(id int) bool {
	if c.rate <= 0 {
		return false
	}
	if c.r.T.Draw(core.SF, c.rate) == c.rate-1 {
		c.r.Count(id)
		return true
	}
	return false
}

func (c *Cache) maybeEvict() {
	if len(c.keys) > 0 && c.fault(cCacheEvict) {
		i := c.r.T.Draw(core.SF, len(c.keys))
		c.keys = append(c.keys[:i], c.keys[i+1:]...)
		c.vals = append(c.vals[:i], c.vals[i+1:]...)
	}
}

func (c *Cache) Get(k *curve.CompressedEdwardsY) *ed25519.ExpandedPublicKey {
	c.r.Count(cCacheGet)
	c.maybeEvict()
	i := c.find(k)
	if i < 0 {
		return nil
	}
	if c.fault(cCacheSpurious) {
		return nil
	}
	c.r.Count(cCacheHit)
	return c.vals[i]
}

func (c *Cache) Put(k *curve.CompressedEdwardsY, v *ed25519.ExpandedPublicKey) {
	c.maybeEvict()
	if c.fault(cCacheDropPut) {
		return
	}
	if i := c.find(k); i >= 0 {
		c.vals[i] = v
		return
	}
	c.keys = append(c.keys, *k)
	c.vals = append(c.vals, v)
}
