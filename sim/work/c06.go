package work

import (
	"crypto"
	_ "crypto/sha256"
	"crypto/sha512"
	"encoding/binary"
	"fmt"

	"golang.org/x/crypto/sha3"

	"github.com/oasisprotocol/curve25519-voi/curve"
	"github.com/oasisprotocol/curve25519-voi/curve/scalar"
	"github.com/oasisprotocol/curve25519-voi/primitives/ed25519"
	"github.com/oasisprotocol/curve25519-voi/primitives/ed25519/extra/ecvrf"
	"github.com/oasisprotocol/curve25519-voi/primitives/h2c"
	"github.com/oasisprotocol/curve25519-voi/primitives/merlin"
	"github.com/oasisprotocol/curve25519-voi/primitives/sr25519"
	"github.com/oasisprotocol/curve25519-voi/primitives/x25519"

	"verifsim/core"
)

// C06: the API tour.  The workload never judges anything: it executes a broad,
// tape-determined sweep over the exported operations of every package and logs
// a digest of the canonical output of each (bytes, booleans, error presence).
// The driver runs the same indices on the four builds and compares the per-index
// event-log digests; any observable backend difference is a digest difference.
//
// Logging rules: canonical encodings only (never limbs, pointers, timing or map
// order); errors as "err=true/false" (two unreachable internal messages name
// their backend); a panic only as "family X: panic".

var (
	c06ops      = core.RegCounter("c06.logged_operations")
	c06kinds    = core.RegCounter("c06.operation_kinds_per_run_summed")
	c06panics   = core.RegCounter("c06.family_panics")
	c06fPool    = core.RegCounter("c06.family.operand_pools")
	c06fScalar  = core.RegCounter("c06.family.scalar")
	c06fRecode  = core.RegCounter("c06.family.scalar_recoding")
	c06fEd      = core.RegCounter("c06.family.edwards_group")
	c06fEdMul   = core.RegCounter("c06.family.edwards_scalar_mul")
	c06fEdMSM   = core.RegCounter("c06.family.edwards_multiscalar")
	c06fEdExp   = core.RegCounter("c06.family.edwards_expanded")
	c06fEdCodec = core.RegCounter("c06.family.edwards_codec")
	c06fMont    = core.RegCounter("c06.family.montgomery")
	c06fRis     = core.RegCounter("c06.family.ristretto_group")
	c06fRisMSM  = core.RegCounter("c06.family.ristretto_multiscalar_expanded")
	c06fRisCod  = core.RegCounter("c06.family.ristretto_codec")
	c06fX       = core.RegCounter("c06.family.x25519")
	c06fEdSign  = core.RegCounter("c06.family.ed25519_sign_verify")
	c06fEdBatch = core.RegCounter("c06.family.ed25519_batch")
	c06fVRF     = core.RegCounter("c06.family.ecvrf")
	c06fH2C     = core.RegCounter("c06.family.h2c")
	c06fMerlin  = core.RegCounter("c06.family.merlin")
	c06fSr      = core.RegCounter("c06.family.sr25519")
	c06pip      = core.RegCounter("c06.multiscalar_calls_at_or_above_pippenger_threshold")
	c06huge     = core.RegCounter("c06.multiscalar_calls_with_500_or_800_terms")
	c06bigBatch = core.RegCounter("c06.batches_with_100_or_more_entries")
	c06unred    = core.RegCounter("c06.unreduced_scalar_operands")
	c06torsion  = core.RegCounter("c06.torsion_or_mixed_order_point_operands")
	c06decOK    = core.RegCounter("c06.decompressions_accepted")
	c06decRej   = core.RegCounter("c06.decompressions_rejected")
	c06verAcc   = core.RegCounter("c06.signature_verifications_accepted")
	c06verRej   = core.RegCounter("c06.signature_verifications_rejected")
)

func init() {
	Register(&Workload{
		Name:     "C06",
		Property: "C06",
		Phase:    "API tour replayed on every backend",
		Variants: []string{"plain", "noavx2", "purego", "force32bit"},
		Rule: "per run: one tape-determined tour over 20 operation families (plus the operand pools) of curve/scalar, curve (Edwards, Montgomery, Ristretto, expanded points, user-built tables), x25519, ed25519 (+batch, expanded keys), ecvrf, h2c, merlin and sr25519, executed in a tape-shuffled order; " +
			"operands are drawn from the tape as a mix of random values and boundary values: scalars {0, 1, L-1, L, L+1, kL+j, 2^252, 2^255-1, 2^k, 2^k-1, byte runs of 0x00/0xff, random reduced, random unreduced 255-bit via SetBits}, points {identity, basepoint, the 8-torsion points, basepoint multiples plus torsion, decoded random strings, sums of those}, encodings {random strings, y>=p and x=0 non-canonical forms, limb-pattern y values}, multiscalar lengths from {0,1,2,3,7,8,31,32,63,64,189,190,191,250} and rarely {500,800}, batch sizes 1..8 and occasionally ~100/~195, message/label/DST lengths at hash-block, STROBE-rate (166/332) and 255/256 seams; every entropy reader is a deterministic reader with a tape-drawn seed; " +
			"every operation appends one event carrying a digest of its canonical output (encoded bytes, booleans, err!=nil; a recovered panic only as 'family X: panic'); non-trivial = every run (each run executes every family at least once, i.e. >= 40 distinct operation kinds; the count is asserted); " +
			"oracle: the SHA-256 of the run's event log must be equal, index by index, across the four builds {amd64 asm + AVX2, amd64 asm with GODEBUG=cpu.avx2=off, -tags purego, -tags force32bit}; the workload itself never reports a violation",
		Real: []string{"curve/scalar", "curve (Edwards, Montgomery, Ristretto, precomputation, Straus/Pippenger/Abglsv-Pornin)", "internal/field (whichever backend the build selects)", "internal/strobe Keccak-f[1600] (assembly or Go)", "primitives/x25519", "primitives/ed25519 (+batch, expanded keys)", "primitives/ed25519/extra/ecvrf", "primitives/h2c", "primitives/merlin", "primitives/sr25519", "internal/lattice, internal/elligator"},
		Stub: []string{"entropy: deterministic readers seeded from the tape"},
		Run:  runC06,
	})
}

type c06 struct {
	e     *Env
	r     *core.Run
	t     *core.Tape
	g     *Gen
	kinds map[string]struct{} // only its size is ever used
	eds   []*curve.EdwardsPoint
	riss  []*curve.RistrettoPoint
	// shared between the ed25519 families of one run
	items []c06Item
}

type c06Item struct {
	pk, msg, sig []byte
	opts         *ed25519.Options
	tag          string
}

// op logs one operation.  kind identifies the operation kind (API entry point
// and variant); the rest is a rendering of operand and result digests.
func (c *c06) op(kind, format string, args ...interface{}) {
	c.kinds[kind] = struct{}{}
	c.r.Ev(kind+" "+format, args...)
	c.r.AddSteps(1)
	c.r.Count(c06ops)
}

func (c *c06) fam(name string, ctr int, f func()) {
	c.r.Count(ctr)
	if pan, _ := Guard(f); pan {
		c.r.Count(c06panics)
		c.r.Ev("family %s: panic", name)
		c.r.AddSteps(1)
	}
}

func (c *c06) rd() *DetReader { return NewDetReader(uint64(c.t.W(1<<30)) + 1) }

func runC06(e *Env, r *core.Run) {
	c := &c06{e: e, r: r, t: r.T, g: &Gen{T: r.T}, kinds: map[string]struct{}{}}
	c.fam("pool", c06fPool, c.buildPools)
	type fam struct {
		name string
		ctr  int
		f    func()
	}
	fams := []fam{
		{"scalar", c06fScalar, c.famScalar},
		{"scalar-recoding", c06fRecode, c.famRecode},
		{"edwards-group", c06fEd, c.famEdwards},
		{"edwards-mul", c06fEdMul, c.famEdMul},
		{"edwards-msm", c06fEdMSM, c.famEdMSM},
		{"edwards-expanded", c06fEdExp, c.famEdExpanded},
		{"edwards-codec", c06fEdCodec, c.famEdCodec},
		{"montgomery", c06fMont, c.famMontgomery},
		{"ristretto-group", c06fRis, c.famRistretto},
		{"ristretto-msm", c06fRisMSM, c.famRisMSM},
		{"ristretto-codec", c06fRisCod, c.famRisCodec},
		{"x25519", c06fX, c.famX25519},
		{"ed25519", c06fEdSign, c.famEd25519},
		{"ed25519-batch", c06fEdBatch, c.famEdBatch},
		{"ecvrf", c06fVRF, c.famECVRF},
		{"h2c", c06fH2C, c.famH2C},
		{"merlin", c06fMerlin, c.famMerlin},
		{"sr25519", c06fSr, c.famSr25519},
		{"aliased-receivers", c06fAlias, c.famAliased},
		{"input-lengths", c06fLen, c.famLengths},
	}
	// tape-drawn order (exhausted tape: a fixed order); ed25519 must precede its
	// batch family only in the sense that the batch builds its own items if none exist.
	for i := len(fams) - 1; i > 0; i-- {
		j := c.t.W(i + 1)
		fams[i], fams[j] = fams[j], fams[i]
	}
	for _, f := range fams {
		r.Ev("family %s", f.name)
		c.fam(f.name, f.ctr, f.f)
	}
	r.CountN(c06kinds, int64(len(c.kinds)))
	r.Ev("kinds=%d", len(c.kinds))
	r.Nontrivial = len(c.kinds) >= 40
}

// ---- operand generators ---------------------------------------------------------

func c06sb(s *scalar.Scalar) []byte {
	b := make([]byte, 32)
	if err := s.ToBytes(b); err != nil {
		return nil
	}
	return b
}

func c06hs(s *scalar.Scalar) string        { return core.Hex8(c06sb(s)) }
func c06he(p *curve.EdwardsPoint) string   { return core.Hex8(edBytes(p)) }
func c06hr(p *curve.RistrettoPoint) string { return core.Hex8(risBytes(p)) }
func c06i8(d []int8) string {
	b := make([]byte, len(d))
	for i, v := range d {
		b[i] = byte(v)
	}
	return core.Hex8(b)
}

func c06bits(bs []bool) string {
	if len(bs) <= 16 {
		s := make([]byte, len(bs))
		for i, b := range bs {
			s[i] = '0' + bb(b)
		}
		return string(s)
	}
	s := make([]byte, len(bs))
	n := 0
	for i, b := range bs {
		s[i] = bb(b)
		n += int(s[i])
	}
	return fmt.Sprintf("%s(%d true of %d)", core.Hex8(s), n, len(bs))
}

// scBytes draws the 32-byte pattern of a scalar operand (boundary or random).
func (c *c06) scBytes() []byte {
	t := c.t
	b := make([]byte, 32)
	switch t.W(16) {
	case 0, 15:
		return c06sb(c.g.Scalar()) // random, reduced
	case 1, 14:
		copy(b, c.g.Bytes(32)) // random 255-bit (SetBits clears bit 255), usually >= L
	case 2: // zero
	case 3:
		b[0] = 1
	case 4:
		copy(b, groupOrderL[:])
		b[0]-- // L-1
	case 5:
		copy(b, groupOrderL[:]) // L
	case 6:
		copy(b, groupOrderL[:])
		b[0]++ // L+1
	case 7:
		b[31] = 0x10 // 2^252
	case 8:
		for i := range b {
			b[i] = 0xff // 2^255-1 after SetBits
		}
	case 9:
		k := t.W(255)
		b[k/8] = 1 << uint(k%8) // 2^k
	case 10:
		k := 1 + t.W(255) // 2^k - 1
		for i := 0; i < k; i++ {
			b[i/8] |= 1 << uint(i%8)
		}
	case 11:
		binary.LittleEndian.PutUint64(b, uint64(t.W(1<<16)))
	case 12: // random with a run of 0x00 / 0xff bytes (carry chains)
		copy(b, c.g.Bytes(32))
		lo := t.W(32)
		n := 1 + t.W(32-lo)
		v := byte(0xff * t.W(2))
		for i := lo; i < lo+n; i++ {
			b[i] = v
		}
	default: // kL + j, k in 1..7, j in -3..16
		j := t.W(20) - 3
		if j >= 0 {
			b[0] = byte(j)
		}
		for k := 1 + t.W(7); k > 0; k-- {
			addL(b)
		}
		if j < 0 { // subtract -j (no borrow past byte 0 can reach zero: L's low byte is 0xed)
			for i, d := 0, -j; i < 32 && d > 0; i++ {
				v := int(b[i]) - d
				d = 0
				if v < 0 {
					v += 256
					d = 1
				}
				b[i] = byte(v)
			}
		}
	}
	b[31] &= 0x7f
	return b
}

func (c *c06) sc() *scalar.Scalar {
	s, err := scalar.NewFromBits(c.scBytes())
	if err != nil {
		panic("harness: NewFromBits on 32 bytes failed")
	}
	if !s.IsCanonical() {
		c.r.Count(c06unred)
	}
	return s
}

// scNZ draws a scalar that is non-zero modulo L (precondition of Invert).
func (c *c06) scNZ() *scalar.Scalar {
	s := c.sc()
	if scalar.New().Reduce(s).Equal(scalar.New()) == 1 {
		return scalar.One()
	}
	return s
}

func (c *c06) scs(n int) []*scalar.Scalar {
	out := make([]*scalar.Scalar, n)
	for i := range out {
		out[i] = c.sc()
	}
	return out
}

var (
	c06lenSmall = []int{0, 1, 2, 3, 7, 8}
	c06lenMid   = []int{31, 32, 63, 64}
	c06lenLarge = []int{189, 190, 191, 250}
	c06lenHuge  = []int{500, 800}
)

// msmLen draws a multiscalar length; large lengths only occasionally.
func (c *c06) msmLen() int {
	t := c.t
	switch k := t.W(64); {
	case k == 63:
		return c06lenHuge[t.W(len(c06lenHuge))]
	case k >= 55:
		return c06lenLarge[t.W(len(c06lenLarge))]
	case k >= 40:
		return c06lenMid[t.W(len(c06lenMid))]
	default:
		return c06lenSmall[t.W(len(c06lenSmall))]
	}
}

func (c *c06) noteLen(n int) {
	if n >= 190 {
		c.r.Count(c06pip)
	}
	if n >= 500 {
		c.r.Count(c06huge)
	}
}

func (c *c06) buildPools() {
	t := c.t
	add := func(tag string, p *curve.EdwardsPoint) {
		c.eds = append(c.eds, p)
		c.op("pool.edwards", "%d %s -> %s", len(c.eds)-1, tag, c06he(p))
	}
	add("identity", curve.NewEdwardsPoint())
	add("basepoint", curve.NewEdwardsPoint().Set(curve.ED25519_BASEPOINT_POINT))
	k := t.W(8)
	add(fmt.Sprintf("torsion[%d]", k), curve.NewEdwardsPoint().Set(curve.EIGHT_TORSION[k]))
	k = 1 + t.W(7)
	add(fmt.Sprintf("torsion[%d]", k), curve.NewEdwardsPoint().Set(curve.EIGHT_TORSION[k]))
	add("random*B", c.g.EdPoint())
	k = 1 + t.W(7)
	add(fmt.Sprintf("random*B+torsion[%d]", k), curve.NewEdwardsPoint().Add(c.g.EdPoint(), curve.EIGHT_TORSION[k]))
	add("boundary*B", curve.NewEdwardsPoint().MulBasepoint(curve.ED25519_BASEPOINT_TABLE, c.sc()))
	for tries := 0; tries < 6; tries++ {
		var cy curve.CompressedEdwardsY
		copy(cy[:], c.g.Bytes(32))
		var p curve.EdwardsPoint
		if _, err := p.SetCompressedY(&cy); err == nil {
			add("decoded-random", &p) // almost surely of mixed order
			break
		}
	}
	addR := func(tag string, p *curve.RistrettoPoint) {
		c.riss = append(c.riss, p)
		c.op("pool.ristretto", "%d %s -> %s", len(c.riss)-1, tag, c06hr(p))
	}
	addR("identity", curve.NewRistrettoPoint())
	addR("basepoint", curve.NewRistrettoPoint().Set(curve.RISTRETTO_BASEPOINT_POINT))
	addR("random*B", c.g.RisPoint())
	addR("boundary*B", curve.NewRistrettoPoint().MulBasepoint(curve.RISTRETTO_BASEPOINT_TABLE, c.sc()))
	var u curve.RistrettoPoint
	if _, err := u.SetUniformBytes(c.g.Bytes(64)); err == nil {
		addR("uniform", &u)
	}
}

// ed draws an Edwards point operand: a pool point, or the sum of two.
func (c *c06) ed() *curve.EdwardsPoint {
	t := c.t
	i := t.W(len(c.eds))
	p := c.eds[i]
	if i == 2 || i == 3 || i == 5 || i == 7 {
		c.r.Count(c06torsion)
	}
	if t.W(4) == 3 {
		return curve.NewEdwardsPoint().Add(p, c.eds[t.W(len(c.eds))])
	}
	return p
}

func (c *c06) ris() *curve.RistrettoPoint {
	t := c.t
	p := c.riss[t.W(len(c.riss))]
	if t.W(4) == 3 {
		return curve.NewRistrettoPoint().Add(p, c.riss[t.W(len(c.riss))])
	}
	return p
}

// edMany builds n point operands cheaply: pool points and a running sum.
func (c *c06) edMany(n int) []*curve.EdwardsPoint {
	t := c.t
	out := make([]*curve.EdwardsPoint, n)
	acc := curve.NewEdwardsPoint().Set(c.eds[4])
	for i := range out {
		if t.W(4) == 0 {
			out[i] = c.eds[t.W(len(c.eds))]
			continue
		}
		acc.Add(acc, c.eds[1+t.W(len(c.eds)-1)])
		out[i] = curve.NewEdwardsPoint().Set(acc)
	}
	return out
}

func (c *c06) risMany(n int) []*curve.RistrettoPoint {
	t := c.t
	out := make([]*curve.RistrettoPoint, n)
	acc := curve.NewRistrettoPoint().Set(c.riss[2])
	for i := range out {
		if t.W(4) == 0 {
			out[i] = c.riss[t.W(len(c.riss))]
			continue
		}
		acc.Add(acc, c.riss[1+t.W(len(c.riss)-1)])
		out[i] = curve.NewRistrettoPoint().Set(acc)
	}
	return out
}

// ---- curve/scalar ----------------------------------------------------------------

func (c *c06) famScalar() {
	t := c.t
	a, b := c.sc(), c.sc()
	ha, hb := c06hs(a), c06hs(b)
	o := scalar.New()
	c.op("scalar.Add", "%s %s -> %s", ha, hb, c06hs(o.Add(a, b)))
	c.op("scalar.Sub", "%s %s -> %s", ha, hb, c06hs(o.Sub(a, b)))
	c.op("scalar.Mul", "%s %s -> %s", ha, hb, c06hs(o.Mul(a, b)))
	c.op("scalar.Neg", "%s -> %s", ha, c06hs(o.Neg(a)))
	c.op("scalar.Reduce", "%s -> %s", ha, c06hs(o.Reduce(a)))
	c.op("scalar.IsCanonical", "%s -> %v %s -> %v", ha, a.IsCanonical(), hb, b.IsCanonical())
	c.op("scalar.Equal", "%s %s -> %d self=%d", ha, hb, a.Equal(b), a.Equal(scalar.New().Set(a)))
	// aliasing forms: receiver is an operand
	x := scalar.New().Set(a)
	x.Mul(x, x)
	y := scalar.New().Set(a)
	y.Add(y, b)
	z := scalar.New().Set(b)
	z.Sub(a, z)
	c.op("scalar.aliased", "sq=%s add=%s sub=%s", c06hs(x), c06hs(y), c06hs(z))
	nz := c.scNZ()
	inv := scalar.New().Invert(nz)
	c.op("scalar.Invert", "%s -> %s check=%s", c06hs(nz), c06hs(inv), c06hs(scalar.New().Mul(inv, nz)))
	// BatchInvert
	n := t.W(6)
	if t.W(8) == 7 {
		n = 16 + t.W(40)
	}
	in := make([]*scalar.Scalar, n)
	var ins []byte
	for i := range in {
		in[i] = c.scNZ()
		ins = append(ins, c06sb(in[i])...)
	}
	prod := scalar.New().BatchInvert(in)
	var outs []byte
	for i := range in {
		outs = append(outs, c06sb(in[i])...)
	}
	c.op("scalar.BatchInvert", "n=%d %s -> %s ret=%s", n, core.Hex8(ins), core.Hex8(outs), c06hs(prod))
	// Product / Sum
	vs := c.scs(t.W(7))
	c.op("scalar.Product", "n=%d -> %s", len(vs), c06hs(scalar.New().Product(vs)))
	c.op("scalar.Sum", "n=%d -> %s", len(vs), c06hs(scalar.New().Sum(vs)))
	// wide / mod-order / canonical decoding
	w := c.g.Bytes(64)
	switch t.W(6) {
	case 1:
		for i := range w {
			w[i] = 0xff
		}
	case 2:
		for i := 32; i < 64; i++ {
			w[i] = 0
		}
		copy(w, groupOrderL[:])
	case 3:
		for i := 0; i < 32; i++ {
			w[i] = 0
		}
		copy(w[32:], groupOrderL[:])
	case 4:
		lo := t.W(64)
		nn := 1 + t.W(64-lo)
		v := byte(0xff * t.W(2))
		for i := lo; i < lo+nn; i++ {
			w[i] = v
		}
	}
	ws, err := scalar.New().SetBytesModOrderWide(w)
	if err == nil {
		c.op("scalar.SetBytesModOrderWide", "%s -> %s", core.Hex8(w), c06hs(ws))
	} else {
		c.op("scalar.SetBytesModOrderWide", "%s -> err", core.Hex8(w))
	}
	raw := c.scBytes()
	if t.W(2) == 1 {
		raw[31] |= 0x80
	}
	ms, err := scalar.NewFromBytesModOrder(raw)
	if err == nil {
		c.op("scalar.SetBytesModOrder", "%s -> %s", core.Hex8(raw), c06hs(ms))
	} else {
		c.op("scalar.SetBytesModOrder", "%s -> err", core.Hex8(raw))
	}
	cs, err := scalar.NewFromCanonicalBytes(raw)
	c.op("scalar.SetCanonicalBytes", "%s -> err=%v %s", core.Hex8(raw), err != nil, c06scOrNil(cs))
	var us scalar.Scalar
	err = us.UnmarshalBinary(raw)
	mb, merr := us.MarshalBinary()
	c.op("scalar.UnmarshalBinary", "%s -> err=%v %s %v", core.Hex8(raw), err != nil, core.Hex8(mb), merr != nil)
	c.op("scalar.ScMinimalVartime", "%s -> %v", core.Hex8(raw), scalar.ScMinimalVartime(raw))
	var sel scalar.Scalar
	ch := t.W(2)
	sel.ConditionalSelect(a, b, ch)
	c.op("scalar.ConditionalSelect", "%d -> %s", ch, c06hs(&sel))
	rs, err := scalar.New().SetRandom(c.rd())
	c.op("scalar.SetRandom", "err=%v %s", err != nil, c06scOrNil(rs))
	u := uint64(t.W(1<<30))<<20 | uint64(t.W(1<<20))
	c.op("scalar.SetUint64", "%d -> %s one=%s zero=%s", u, c06hs(scalar.NewFromUint64(u)), c06hs(scalar.One()), c06hs(scalar.New().Set(a).Zero()))
	// a short chain mixing operations (values far from their operands' patterns)
	acc := scalar.New().Set(a)
	for i, m := 0, 1+t.W(6); i < m; i++ {
		switch t.W(4) {
		case 0:
			acc.Mul(acc, b)
		case 1:
			acc.Add(acc, c.sc())
		case 2:
			acc.Sub(c.sc(), acc)
		default:
			acc.Mul(acc, acc)
		}
	}
	c.op("scalar.chain", "-> %s", c06hs(acc))
}

func c06scOrNil(s *scalar.Scalar) string {
	if s == nil {
		return "nil"
	}
	return c06hs(s)
}

func (c *c06) famRecode() {
	t := c.t
	s := c.sc()
	hs := c06hs(s)
	for w := uint(2); w <= 8; w++ {
		naf := s.NonAdjacentForm(w)
		c.op(fmt.Sprintf("scalar.NonAdjacentForm(%d)", w), "%s -> %s", hs, c06i8(naf[:]))
	}
	r16 := s.ToRadix16()
	c.op("scalar.ToRadix16", "%s -> %s", hs, c06i8(r16[:]))
	for w := uint(6); w <= 8; w++ {
		d := s.ToRadix2w(w)
		c.op(fmt.Sprintf("scalar.ToRadix2w(%d)", w), "%s -> %s hint=%d", hs, c06i8(d[:]), scalar.ToRadix2wSizeHint(w))
	}
	bits := s.Bits()
	c.op("scalar.Bits", "%s -> %s", hs, core.Hex8(bits[:]))
	// a second operand with a tape-chosen width only
	s2 := c.sc()
	w := uint(2 + t.W(7))
	naf := s2.NonAdjacentForm(w)
	c.op(fmt.Sprintf("scalar.NonAdjacentForm(%d)", w), "%s -> %s", c06hs(s2), c06i8(naf[:]))
}

// ---- curve: Edwards ---------------------------------------------------------------

func (c *c06) famEdwards() {
	t := c.t
	a, b := c.ed(), c.ed()
	ha, hb := c06he(a), c06he(b)
	var o curve.EdwardsPoint
	c.op("edwards.Add", "%s %s -> %s", ha, hb, c06he(o.Add(a, b)))
	c.op("edwards.Sub", "%s %s -> %s", ha, hb, c06he(o.Sub(a, b)))
	c.op("edwards.Neg", "%s -> %s", ha, c06he(o.Neg(a)))
	c.op("edwards.double", "%s -> %s", ha, c06he(o.Add(a, a)))
	c.op("edwards.MulByCofactor", "%s -> %s", ha, c06he(o.MulByCofactor(a)))
	c.op("edwards.IsSmallOrder", "%s -> %v", ha, a.IsSmallOrder())
	c.op("edwards.IsTorsionFree", "%s -> %v", ha, a.IsTorsionFree())
	c.op("edwards.IsIdentity", "%s -> %v sub-self=%v", ha, a.IsIdentity(), o.Sub(a, a).IsIdentity())
	// Equal: against the other operand and against a differently-scaled representative
	var a2 curve.EdwardsPoint
	a2.Add(a, b)
	a2.Sub(&a2, b)
	c.op("edwards.Equal", "%s %s -> %d roundtrip=%d", ha, hb, a.Equal(b), a.Equal(&a2))
	vs := make([]*curve.EdwardsPoint, t.W(7))
	for i := range vs {
		vs[i] = c.ed()
	}
	c.op("edwards.Sum", "n=%d -> %s", len(vs), c06he(o.Sum(vs)))
	ch := t.W(2)
	o.ConditionalSelect(a, b, ch)
	c.op("edwards.ConditionalSelect", "%d -> %s", ch, c06he(&o))
	// aliasing: receiver is an operand
	x := curve.NewEdwardsPoint().Set(a)
	x.Add(x, b)
	y := curve.NewEdwardsPoint().Set(b)
	y.Sub(a, y)
	z := curve.NewEdwardsPoint().Set(a)
	z.Neg(z)
	c.op("edwards.aliased", "add=%s sub=%s neg=%s", c06he(x), c06he(y), c06he(z))
	mb, err := a.MarshalBinary()
	var u curve.EdwardsPoint
	uerr := u.UnmarshalBinary(mb)
	c.op("edwards.MarshalBinary", "%s err=%v back err=%v %s", core.Hex8(mb), err != nil, uerr != nil, c06he(&u))
	// a chain of group operations (representatives with large Z)
	acc := curve.NewEdwardsPoint().Set(a)
	for i, m := 0, 1+t.W(12); i < m; i++ {
		switch t.W(4) {
		case 0:
			acc.Add(acc, acc)
		case 1:
			acc.Sub(acc, c.ed())
		case 2:
			acc.MulByCofactor(acc)
		default:
			acc.Add(acc, c.ed())
		}
	}
	c.op("edwards.chain", "-> %s", c06he(acc))
}

func (c *c06) famEdMul() {
	t := c.t
	a, b := c.ed(), c.ed()
	s, u := c.sc(), c.sc()
	ha, hs, hu := c06he(a), c06hs(s), c06hs(u)
	var o curve.EdwardsPoint
	c.op("edwards.Mul", "%s * %s -> %s", hs, ha, c06he(o.Mul(a, s)))
	c.op("edwards.MulBasepoint(package table)", "%s -> %s", hs, c06he(o.MulBasepoint(curve.ED25519_BASEPOINT_TABLE, s)))
	c.op("edwards.BasepointTable.Basepoint", "-> %s", c06he(curve.ED25519_BASEPOINT_TABLE.Basepoint()))
	tbl := curve.NewEdwardsBasepointTable(a)
	c.op("edwards.NewEdwardsBasepointTable", "%s -> basepoint %s", ha, c06he(tbl.Basepoint()))
	c.op("edwards.MulBasepoint(user table)", "%s * %s -> %s", hs, ha, c06he(o.MulBasepoint(tbl, s)))
	if t.W(2) == 1 {
		c.op("edwards.MulBasepoint(user table)", "%s * %s -> %s", hu, ha, c06he(o.MulBasepoint(tbl, u)))
	}
	c.op("edwards.DoubleScalarMulBasepointVartime", "%s %s %s -> %s", hs, ha, hu, c06he(o.DoubleScalarMulBasepointVartime(s, a, u)))
	c.op("edwards.TripleScalarMulBasepointVartime", "%s %s %s %s -> %s", hs, ha, hu, c06he(b), c06he(o.TripleScalarMulBasepointVartime(s, a, u, b)))
	// the verification shape: C = sA + uB, the result must be the identity on every backend
	var C curve.EdwardsPoint
	C.DoubleScalarMulBasepointVartime(s, a, u)
	o.TripleScalarMulBasepointVartime(s, a, u, &C)
	c.op("edwards.TripleScalarMulBasepointVartime(balanced)", "-> %s identity=%v", c06he(&o), o.IsIdentity())
	// aliased receiver
	x := curve.NewEdwardsPoint().Set(a)
	x.Mul(x, u)
	c.op("edwards.Mul(aliased)", "%s * %s -> %s", hu, ha, c06he(x))
	for i, m := 0, t.W(3); i < m; i++ {
		p, k := c.ed(), c.sc()
		c.op("edwards.Mul", "%s * %s -> %s", c06hs(k), c06he(p), c06he(o.Mul(p, k)))
	}
}

func (c *c06) famEdMSM() {
	t := c.t
	var o curve.EdwardsPoint
	n := c.msmLen()
	c.noteLen(n)
	ss, ps := c.scs(n), c.edMany(n)
	c.op("edwards.MultiscalarMulVartime", "n=%d -> %s", n, c06he(o.MultiscalarMulVartime(ss, ps)))
	// constant-time Straus: same operands when short, else a fresh short set
	if n > 64 && t.W(4) != 3 {
		n = c06lenSmall[t.W(len(c06lenSmall))]
		ss, ps = ss[:n], ps[:n]
	}
	c.op("edwards.MultiscalarMul", "n=%d -> %s", n, c06he(o.MultiscalarMul(ss, ps)))
	// always: one tiny and the empty product
	k := 1 + t.W(3)
	ss, ps = c.scs(k), c.edMany(k)
	c.op("edwards.MultiscalarMulVartime", "n=%d -> %s", k, c06he(o.MultiscalarMulVartime(ss, ps)))
	c.op("edwards.MultiscalarMul", "n=%d -> %s", k, c06he(o.MultiscalarMul(ss, ps)))
	c.op("edwards.MultiscalarMul(empty)", "-> %s %s", c06he(o.MultiscalarMul(nil, nil)), c06he(curve.NewEdwardsPoint().MultiscalarMulVartime(nil, nil)))
}

func (c *c06) famEdExpanded() {
	t := c.t
	a, b := c.ed(), c.ed()
	s, u := c.sc(), c.sc()
	ha, hs, hu := c06he(a), c06hs(s), c06hs(u)
	ea := curve.NewExpandedEdwardsPoint(a)
	var o curve.EdwardsPoint
	c.op("edwards.NewExpandedEdwardsPoint", "%s -> point %s set %s", ha, c06he(ea.Point()), c06he(o.SetExpanded(ea)))
	c.op("edwards.ExpandedDoubleScalarMulBasepointVartime", "%s %s %s -> %s", hs, ha, hu, c06he(o.ExpandedDoubleScalarMulBasepointVartime(s, ea, u)))
	c.op("edwards.ExpandedTripleScalarMulBasepointVartime", "%s %s %s %s -> %s", hs, ha, hu, c06he(b), c06he(o.ExpandedTripleScalarMulBasepointVartime(s, ea, u, b)))
	var C curve.EdwardsPoint
	C.ExpandedDoubleScalarMulBasepointVartime(s, ea, u)
	o.ExpandedTripleScalarMulBasepointVartime(s, ea, u, &C)
	c.op("edwards.ExpandedTripleScalarMulBasepointVartime(balanced)", "-> %s identity=%v", c06he(&o), o.IsIdentity())
	var re curve.ExpandedEdwardsPoint
	re.SetEdwardsPoint(b)
	c.op("edwards.ExpandedEdwardsPoint.SetEdwardsPoint", "%s -> %s", c06he(b), c06he(re.Point()))
	// mixed static/dynamic multiscalar; the total crosses the Straus/Pippenger threshold occasionally
	n := c.msmLen()
	c.noteLen(n)
	ns := 0
	switch t.W(4) {
	case 0:
		ns = n / 2
	case 1:
		ns = n
	case 2:
		ns = t.W(n + 1)
	}
	// a few distinct expanded points, re-used
	distinct := []*curve.ExpandedEdwardsPoint{ea, &re}
	for i, m := 0, t.W(4); i < m; i++ {
		distinct = append(distinct, curve.NewExpandedEdwardsPoint(c.ed()))
	}
	sp := make([]*curve.ExpandedEdwardsPoint, ns)
	for i := range sp {
		sp[i] = distinct[t.W(len(distinct))]
	}
	ss, ds, dp := c.scs(ns), c.scs(n-ns), c.edMany(n-ns)
	c.op("edwards.ExpandedMultiscalarMulVartime", "static=%d dynamic=%d -> %s", ns, n-ns, c06he(o.ExpandedMultiscalarMulVartime(ss, sp, ds, dp)))
	// always: a tiny mixed one and the empty one
	c.op("edwards.ExpandedMultiscalarMulVartime", "static=1 dynamic=1 -> %s", c06he(o.ExpandedMultiscalarMulVartime([]*scalar.Scalar{s}, []*curve.ExpandedEdwardsPoint{ea}, []*scalar.Scalar{u}, []*curve.EdwardsPoint{b})))
	c.op("edwards.ExpandedMultiscalarMulVartime(empty)", "-> %s", c06he(o.ExpandedMultiscalarMulVartime(nil, nil, nil, nil)))
}

// c06yPattern draws a 32-byte string to be decoded as a point / field element:
// random, non-canonical (y >= p, or x = 0 with the sign bit), or a limb pattern.
func (c *c06) yPattern() ([]byte, string) {
	t := c.t
	b := make([]byte, 32)
	switch t.W(8) {
	case 0, 7:
		return c.g.Bytes(32), "random"
	case 1:
		if len(ncPoints()) > 0 {
			return clone(ncPoints()[t.W(len(ncPoints()))]), "non-canonical"
		}
		return c.g.Bytes(32), "random"
	case 2: // p + k, k in 0..18, either sign: every y >= p
		copy(b, leBytes32(fieldP))
		b[0] += byte(t.W(19))
		b[31] |= byte(t.W(2)) << 7
		return b, "y>=p"
	case 3: // p - 1 - k
		copy(b, leBytes32(fieldP))
		b[0] -= byte(1 + t.W(200))
		b[31] |= byte(t.W(2)) << 7
		return b, "p-k"
	case 4: // small y
		b[0] = byte(t.W(256))
		b[31] |= byte(t.W(2)) << 7
		return b, "small"
	case 5: // 2^k or 2^k-1
		k := 1 + t.W(254)
		if t.W(2) == 0 {
			b[k/8] = 1 << uint(k%8)
		} else {
			for i := 0; i < k; i++ {
				b[i/8] |= 1 << uint(i%8)
			}
		}
		b[31] |= byte(t.W(2)) << 7
		return b, "pow2"
	default: // random with a run of 0x00 / 0xff
		copy(b, c.g.Bytes(32))
		lo := t.W(32)
		n := 1 + t.W(32-lo)
		v := byte(0xff * t.W(2))
		for i := lo; i < lo+n; i++ {
			b[i] = v
		}
		return b, "byte-run"
	}
}

func (c *c06) famEdCodec() {
	t := c.t
	a := c.ed()
	var cy curve.CompressedEdwardsY
	cy.SetEdwardsPoint(a)
	c.op("edwards.Compress", "-> %s canonical=%v", core.Hex8(cy[:]), cy.IsCanonicalVartime())
	var back curve.EdwardsPoint
	_, err := back.SetCompressedY(&cy)
	c.op("edwards.Decompress(own encoding)", "err=%v equal=%d", err != nil, back.Equal(a))
	var id curve.CompressedEdwardsY
	id.Identity()
	c.op("edwards.CompressedEdwardsY.Equal", "%d %d base=%s", cy.Equal(&id), cy.Equal(&cy), core.Hex8(curve.ED25519_BASEPOINT_COMPRESSED[:]))
	for i, m := 0, 3+t.W(6); i < m; i++ {
		b, tag := c.yPattern()
		c2, err := curve.NewCompressedEdwardsYFromBytes(b)
		if err != nil {
			c.op("edwards.Decompress", "%s %s -> bad length", tag, core.Hex8(b))
			continue
		}
		var p curve.EdwardsPoint
		_, err = p.SetCompressedY(c2)
		if err != nil {
			c.r.Count(c06decRej)
			c.op("edwards.Decompress", "%s %s -> err=true canonical=%v", tag, core.Hex8(b), c2.IsCanonicalVartime())
			continue
		}
		c.r.Count(c06decOK)
		c.op("edwards.Decompress", "%s %s -> err=false re=%s canonical=%v small=%v torsionfree=%v", tag, core.Hex8(b), c06he(&p), c2.IsCanonicalVartime(), p.IsSmallOrder(), p.IsTorsionFree())
		var q curve.EdwardsPoint
		uerr := q.UnmarshalBinary(b)
		c.op("edwards.UnmarshalBinary", "%s -> err=%v %s", core.Hex8(b), uerr != nil, c06he(&q))
	}
}

func (c *c06) famMontgomery() {
	t := c.t
	a := c.ed()
	s := c.sc()
	var m, m2 curve.MontgomeryPoint
	m.SetEdwards(a)
	c.op("montgomery.SetEdwards", "%s -> %s", c06he(a), core.Hex8(m[:]))
	m2.Mul(&m, s)
	c.op("montgomery.Mul", "%s * %s -> %s", c06hs(s), core.Hex8(m[:]), core.Hex8(m2[:]))
	// must agree with the Edwards ladder on every backend (logged, not judged)
	var es curve.EdwardsPoint
	es.Mul(a, s)
	var m3 curve.MontgomeryPoint
	m3.SetEdwards(&es)
	c.op("montgomery.Equal", "%d %d", m2.Equal(&m3), m2.Equal(&m))
	for sign := uint8(0); sign < 2; sign++ {
		var p curve.EdwardsPoint
		_, err := p.SetMontgomery(&m, sign)
		if err != nil {
			c.op("edwards.SetMontgomery", "%s sign=%d -> err=true", core.Hex8(m[:]), sign)
		} else {
			c.op("edwards.SetMontgomery", "%s sign=%d -> err=false %s", core.Hex8(m[:]), sign, c06he(&p))
		}
	}
	// arbitrary u-coordinates: on the twist, u = -1, non-canonical u
	for i, n := 0, 2+t.W(4); i < n; i++ {
		b, tag := c.yPattern()
		if t.W(8) == 7 {
			copy(b, leBytes32(fieldP))
			b[0]-- // u = -1
			tag = "u=-1"
		}
		var u, r curve.MontgomeryPoint
		if _, err := u.SetBytes(b); err != nil {
			continue
		}
		k := c.sc()
		r.Mul(&u, k)
		var p curve.EdwardsPoint
		sign := uint8(t.W(2))
		_, err := p.SetMontgomery(&u, sign)
		re := "-"
		if err == nil {
			re = c06he(&p)
		}
		c.op("montgomery.Mul(arbitrary u)", "%s %s * %s -> %s; SetMontgomery sign=%d err=%v %s", tag, c06hs(k), core.Hex8(b), core.Hex8(r[:]), sign, err != nil, re)
	}
	c.op("montgomery.X25519_BASEPOINT", "%s", core.Hex8(curve.X25519_BASEPOINT[:]))
}

// ---- curve: Ristretto -------------------------------------------------------------

func (c *c06) famRistretto() {
	t := c.t
	a, b := c.ris(), c.ris()
	s, u := c.sc(), c.sc()
	ha, hb, hs, hu := c06hr(a), c06hr(b), c06hs(s), c06hs(u)
	var o curve.RistrettoPoint
	c.op("ristretto.Add", "%s %s -> %s", ha, hb, c06hr(o.Add(a, b)))
	c.op("ristretto.Sub", "%s %s -> %s", ha, hb, c06hr(o.Sub(a, b)))
	c.op("ristretto.Neg", "%s -> %s", ha, c06hr(o.Neg(a)))
	c.op("ristretto.Mul", "%s * %s -> %s", hs, ha, c06hr(o.Mul(a, s)))
	c.op("ristretto.MulBasepoint(package table)", "%s -> %s", hs, c06hr(o.MulBasepoint(curve.RISTRETTO_BASEPOINT_TABLE, s)))
	c.op("ristretto.Equal", "%s %s -> %d self=%d", ha, hb, a.Equal(b), a.Equal(curve.NewRistrettoPoint().Set(a)))
	c.op("ristretto.IsIdentity", "%v %v", a.IsIdentity(), o.Sub(a, a).IsIdentity())
	c.op("ristretto.DoubleScalarMulBasepointVartime", "%s %s %s -> %s", hs, ha, hu, c06hr(o.DoubleScalarMulBasepointVartime(s, a, u)))
	c.op("ristretto.TripleScalarMulBasepointVartime", "%s %s %s %s -> %s", hs, ha, hu, hb, c06hr(o.TripleScalarMulBasepointVartime(s, a, u, b)))
	var C curve.RistrettoPoint
	C.DoubleScalarMulBasepointVartime(s, a, u)
	o.TripleScalarMulBasepointVartime(s, a, u, &C)
	c.op("ristretto.TripleScalarMulBasepointVartime(balanced)", "-> %s identity=%v", c06hr(&o), o.IsIdentity())
	vs := make([]*curve.RistrettoPoint, t.W(6))
	for i := range vs {
		vs[i] = c.ris()
	}
	c.op("ristretto.Sum", "n=%d -> %s", len(vs), c06hr(o.Sum(vs)))
	ch := t.W(2)
	o.ConditionalSelect(a, b, ch)
	c.op("ristretto.ConditionalSelect", "%d -> %s", ch, c06hr(&o))
	if t.W(3) == 2 {
		tbl := curve.NewRistrettoBasepointTable(a)
		c.op("ristretto.MulBasepoint(user table)", "%s * %s -> %s basepoint %s", hs, ha, c06hr(o.MulBasepoint(tbl, s)), c06hr(tbl.Basepoint()))
	}
	c.op("ristretto.BasepointTable.Basepoint", "-> %s", c06hr(curve.RISTRETTO_BASEPOINT_TABLE.Basepoint()))
	ub := c.g.Bytes(64)
	switch t.W(6) {
	case 4:
		for i := range ub {
			ub[i] = 0xff
		}
	case 5:
		for i := range ub[:32] {
			ub[i] = 0
		}
	}
	var up curve.RistrettoPoint
	_, err := up.SetUniformBytes(ub)
	c.op("ristretto.SetUniformBytes", "%s -> err=%v %s", core.Hex8(ub), err != nil, c06hr(&up))
	var rp curve.RistrettoPoint
	_, err = rp.SetRandom(c.rd())
	c.op("ristretto.SetRandom", "err=%v %s", err != nil, c06hr(&rp))
}

func (c *c06) famRisMSM() {
	t := c.t
	var o curve.RistrettoPoint
	n := c.msmLen()
	c.noteLen(n)
	ss, ps := c.scs(n), c.risMany(n)
	c.op("ristretto.MultiscalarMulVartime", "n=%d -> %s", n, c06hr(o.MultiscalarMulVartime(ss, ps)))
	if n > 64 && t.W(4) != 3 {
		n = c06lenSmall[t.W(len(c06lenSmall))]
		ss, ps = ss[:n], ps[:n]
	}
	c.op("ristretto.MultiscalarMul", "n=%d -> %s", n, c06hr(o.MultiscalarMul(ss, ps)))
	// expanded variants
	a, b := c.ris(), c.ris()
	s, u := c.sc(), c.sc()
	ea := curve.NewExpandedRistrettoPoint(a)
	c.op("ristretto.NewExpandedRistrettoPoint", "%s -> point %s set %s", c06hr(a), c06hr(ea.Point()), c06hr(o.SetExpanded(ea)))
	c.op("ristretto.ExpandedDoubleScalarMulBasepointVartime", "%s %s -> %s", c06hs(s), c06hs(u), c06hr(o.ExpandedDoubleScalarMulBasepointVartime(s, ea, u)))
	c.op("ristretto.ExpandedTripleScalarMulBasepointVartime", "%s %s %s -> %s", c06hs(s), c06hs(u), c06hr(b), c06hr(o.ExpandedTripleScalarMulBasepointVartime(s, ea, u, b)))
	var eb curve.ExpandedRistrettoPoint
	eb.SetRistrettoPoint(b)
	m := c06lenSmall[t.W(len(c06lenSmall))]
	if t.W(8) == 7 {
		m = c.msmLen()
		c.noteLen(m)
	}
	ns := t.W(m + 1)
	sp := make([]*curve.ExpandedRistrettoPoint, ns)
	for i := range sp {
		sp[i] = ea
		if t.W(2) == 1 {
			sp[i] = &eb
		}
	}
	c.op("ristretto.ExpandedMultiscalarMulVartime", "static=%d dynamic=%d -> %s", ns, m-ns, c06hr(o.ExpandedMultiscalarMulVartime(c.scs(ns), sp, c.scs(m-ns), c.risMany(m-ns))))
}

func (c *c06) famRisCodec() {
	t := c.t
	a := c.ris()
	var cr curve.CompressedRistretto
	cr.SetRistrettoPoint(a)
	var back curve.RistrettoPoint
	_, err := back.SetCompressed(&cr)
	var id curve.CompressedRistretto
	id.Identity()
	c.op("ristretto.Compress", "-> %s back err=%v equal=%d isid=%d base=%s", core.Hex8(cr[:]), err != nil, back.Equal(a), cr.Equal(&id), core.Hex8(curve.RISTRETTO_BASEPOINT_COMPRESSED[:]))
	mb, merr := a.MarshalBinary()
	var ub curve.RistrettoPoint
	uerr := ub.UnmarshalBinary(mb)
	c.op("ristretto.MarshalBinary", "%s err=%v back err=%v %s", core.Hex8(mb), merr != nil, uerr != nil, c06hr(&ub))
	for i, m := 0, 3+t.W(6); i < m; i++ {
		var b []byte
		var tag string
		switch t.W(4) {
		case 0: // a valid encoding with one bit flipped
			b, tag = clone(cr[:]), "bit-flipped"
			b[t.W(32)] ^= 1 << uint(t.W(8))
		case 1: // negated s of a valid encoding: p - s (negative => rejected)
			b, tag = c06negFe(cr[:]), "negated"
		default:
			b, tag = c.yPattern()
		}
		var c2 curve.CompressedRistretto
		if _, err := c2.SetBytes(b); err != nil {
			continue
		}
		var p curve.RistrettoPoint
		if _, err := p.SetCompressed(&c2); err != nil {
			c.r.Count(c06decRej)
			c.op("ristretto.Decompress", "%s %s -> err=true", tag, core.Hex8(b))
			continue
		}
		c.r.Count(c06decOK)
		c.op("ristretto.Decompress", "%s %s -> err=false re=%s", tag, core.Hex8(b), c06hr(&p))
	}
}

// c06negFe returns p - x for a 32-byte little-endian x < p (x = 0 stays 0).
func c06negFe(x []byte) []byte {
	p := leBytes32(fieldP)
	out := make([]byte, 32)
	zero := true
	for _, v := range x {
		if v != 0 {
			zero = false
		}
	}
	if zero {
		return out
	}
	borrow := 0
	for i := 0; i < 32; i++ {
		v := int(p[i]) - int(x[i]) - borrow
		borrow = 0
		if v < 0 {
			v += 256
			borrow = 1
		}
		out[i] = byte(v)
	}
	return out
}

// ---- x25519 -------------------------------------------------------------------------

func (c *c06) famX25519() {
	t := c.t
	k := c.g.Bytes(32)
	if t.W(4) == 3 {
		k = c.scBytes()
	}
	var in, base, dst [32]byte
	copy(in[:], k)
	// base: random, a pattern, or a low-order point derived from the torsion subgroup
	lowOrder := false
	switch t.W(4) {
	case 0:
		copy(base[:], c.g.Bytes(32))
	case 1:
		b, _ := c.yPattern()
		copy(base[:], b)
	case 2:
		var m curve.MontgomeryPoint
		m.SetEdwards(curve.EIGHT_TORSION[t.W(8)])
		copy(base[:], m[:])
		lowOrder = true
	default:
		var m curve.MontgomeryPoint
		m.SetEdwards(c.ed())
		copy(base[:], m[:])
	}
	x25519.ScalarMult(&dst, &in, &base)
	c.op("x25519.ScalarMult", "%s %s -> %s", core.Hex8(in[:]), core.Hex8(base[:]), core.Hex8(dst[:]))
	x25519.ScalarBaseMult(&dst, &in)
	c.op("x25519.ScalarBaseMult", "%s -> %s", core.Hex8(in[:]), core.Hex8(dst[:]))
	out, err := x25519.X25519(k, x25519.Basepoint)
	c.op("x25519.X25519(Basepoint)", "%s -> err=%v %s", core.Hex8(k), err != nil, core.Hex8(out))
	out, err = x25519.X25519(k, clone(x25519.Basepoint))
	c.op("x25519.X25519(copy of basepoint)", "%s -> err=%v %s", core.Hex8(k), err != nil, core.Hex8(out))
	out, err = x25519.X25519(k, base[:])
	c.op("x25519.X25519", "%s %s loworder=%v -> err=%v %s", core.Hex8(k), core.Hex8(base[:]), lowOrder, err != nil, core.Hex8(out))
	// always one guaranteed low-order input
	var m curve.MontgomeryPoint
	m.SetEdwards(curve.EIGHT_TORSION[t.W(8)])
	out, err = x25519.X25519(k, m[:])
	c.op("x25519.X25519(low order)", "%s -> err=%v %s", core.Hex8(m[:]), err != nil, core.Hex8(out))
	priv := ed25519.NewKeyFromSeed(c.g.Bytes(32))
	xs := x25519.EdPrivateKeyToX25519(priv)
	xp, ok := x25519.EdPublicKeyToX25519(ed25519.PublicKey(priv[32:]))
	xp2, err := x25519.X25519(xs, x25519.Basepoint)
	c.op("x25519.EdPrivateKeyToX25519", "-> %s", core.Hex8(xs))
	c.op("x25519.EdPublicKeyToX25519", "-> %v %s derived=%s err=%v", ok, core.Hex8(xp), core.Hex8(xp2), err != nil)
	bad, _ := c.yPattern()
	xb, ok := x25519.EdPublicKeyToX25519(ed25519.PublicKey(bad))
	c.op("x25519.EdPublicKeyToX25519(arbitrary)", "%s -> %v %s", core.Hex8(bad), ok, core.Hex8(xb))
	pubA, privA, errA := x25519.GenerateKey(c.rd())
	pubB, privB, errB := x25519.GenerateKey(c.rd())
	if errA == nil && errB == nil {
		s1, s2 := privA.DiffieHellman(pubB), privB.DiffieHellman(pubA)
		c.op("x25519.GenerateKey", "-> %s %s", core.Hex8(pubA[:]), core.Hex8(privA.Public()[:]))
		c.op("x25519.DiffieHellman", "-> %s %s zero=%v", core.Hex8(s1[:]), core.Hex8(s2[:]), s1.IsZero())
		var lo x25519.PublicKey
		copy(lo[:], m[:])
		s3 := privA.DiffieHellman(&lo)
		c.op("x25519.DiffieHellman(low order)", "-> %s zero=%v", core.Hex8(s3[:]), s3.IsZero())
	} else {
		c.op("x25519.GenerateKey", "-> err")
	}
}

// ---- ed25519 ----------------------------------------------------------------------

var c06presetNames = []string{"default", "stdlib", "fips186-5", "zip215"}

func c06preset(i int) *ed25519.VerifyOptions {
	switch i {
	case 0:
		return ed25519.VerifyOptionsDefault
	case 1:
		return ed25519.VerifyOptionsStdLib
	case 2:
		return ed25519.VerifyOptionsFIPS_186_5
	default:
		return ed25519.VerifyOptionsZIP_215
	}
}

func c06withPreset(o *ed25519.Options, i int) *ed25519.Options {
	n := *o
	n.Verify = c06preset(i)
	return &n
}

// buildItems creates this run's signatures: honest ones in every variant, a
// bit-flipped one, torsion-crafted ones and non-canonical / small-order shapes.
func (c *c06) buildItems() {
	if c.items != nil {
		return
	}
	t, g := c.t, c.g
	seed := g.Bytes(32)
	priv := ed25519.NewKeyFromSeed(seed)
	pub := []byte(priv[32:])
	c.op("ed25519.NewKeyFromSeed", "%s -> %s seed=%s", core.Hex8(seed), core.Hex8(priv), core.Hex8(priv.Seed()))
	add := func(tag string, pk, msg, sig []byte, o *ed25519.Options) {
		c.items = append(c.items, c06Item{pk, msg, sig, o, tag})
	}
	msg := g.Msg()
	sig := ed25519.Sign(priv, msg)
	c.op("ed25519.Sign", "%s -> %s", core.Hex8(msg), core.Hex8(sig))
	add("pure", pub, msg, sig, &ed25519.Options{})

	ctx := string(g.Bytes(1 + t.W(255)))
	octx := &ed25519.Options{Context: ctx}
	s2, err := priv.Sign(c.rd(), msg, octx)
	c.op("ed25519.Sign(ctx)", "ctxlen=%d -> err=%v %s", len(ctx), err != nil, core.Hex8(s2))
	if err == nil {
		add("ctx", pub, msg, s2, octx)
	}
	dig := sha512.Sum512(msg)
	oph := &ed25519.Options{Hash: crypto.SHA512}
	if t.W(2) == 1 {
		oph.Context = ctx
	}
	s3, err := priv.Sign(c.rd(), dig[:], oph)
	c.op("ed25519.Sign(ph)", "ctx=%v -> err=%v %s", oph.Context != "", err != nil, core.Hex8(s3))
	if err == nil {
		add("ph", pub, dig[:], s3, oph)
	}
	s4, err := priv.Sign(c.rd(), msg, &ed25519.Options{AddedRandomness: true})
	c.op("ed25519.Sign(hedged)", "-> err=%v %s", err != nil, core.Hex8(s4))
	if err == nil {
		add("hedged", pub, msg, s4, &ed25519.Options{})
	}
	s5, err := priv.Sign(c.rd(), msg, &ed25519.Options{SelfVerify: true, AddedRandomness: t.W(2) == 1})
	c.op("ed25519.Sign(selfverify)", "-> err=%v %s", err != nil, core.Hex8(s5))
	// wrong-length ph message: an error on every backend
	_, err = priv.Sign(c.rd(), msg[:len(msg)/2], oph)
	c.op("ed25519.Sign(ph, bad digest length)", "-> err=%v", err != nil)

	// bit-flipped
	fl := clone(sig)
	fl[t.W(64)] ^= 1 << uint(t.W(8))
	add("bit-flipped", pub, msg, fl, &ed25519.Options{})
	// wrong message
	add("wrong-message", pub, append(clone(msg), 1), sig, &ed25519.Options{})
	// S + L (non-canonical S)
	sl := clone(sig)
	if addL(sl[32:]) {
		add("S+L", pub, msg, sl, &ed25519.Options{})
	}
	// torsion-crafted: torsion on A and/or R, optional delta on S
	for i, n := 0, 1+t.W(3); i < n; i++ {
		tA, tR := t.W(8), t.W(8)
		delta := int64(0)
		if t.W(4) == 3 {
			delta = int64(t.W(5)) - 2
		}
		pk, cs := craftSig(g, seed, tA, tR, delta, nil, msg)
		add(fmt.Sprintf("crafted(tA=%d,tR=%d,d=%d)", tA, tR, delta), pk, msg, cs, &ed25519.Options{})
	}
	if t.W(2) == 1 {
		tA, tR := t.W(8), t.W(8)
		pk, cs := craftSig(g, seed, tA, tR, 0, makeDom2(false, ctx), msg)
		add(fmt.Sprintf("crafted-ctx(tA=%d,tR=%d)", tA, tR), pk, msg, cs, octx)
	}
	// small-order A and R, S = 0: satisfies the cofactored equation for every message
	so := make([]byte, 64)
	var A []byte
	if nc := c06smallNonCanonical(); len(nc) > 0 && t.W(2) == 1 {
		A = clone(nc[t.W(len(nc))]) // non-canonical encoding of a small-order point
	} else {
		A = edBytes(curve.EIGHT_TORSION[t.W(8)])
	}
	if len(ncPoints()) > 0 && t.W(3) == 2 {
		copy(so, ncPoints()[t.W(len(ncPoints()))])
	} else {
		copy(so, edBytes(curve.EIGHT_TORSION[t.W(8)]))
	}
	add("small-order", A, msg, so, &ed25519.Options{})
	// arbitrary bytes as key and signature
	junkPk, _ := c.yPattern()
	junk := g.Bytes(64)
	junk[63] &= 0x0f
	add("junk", junkPk, msg, junk, &ed25519.Options{})
	for i, it := range c.items {
		c.op("ed25519.item", "%d %s pk=%s msg=%s sig=%s", i, it.tag, core.Hex8(it.pk), core.Hex8(it.msg), core.Hex8(it.sig))
	}
}

var c06ncSmall [][]byte

// c06smallNonCanonical: the non-canonical encodings that decode to small-order
// points (accepted as A and R only by the ZIP-215 preset).
func c06smallNonCanonical() [][]byte {
	if c06ncSmall == nil {
		c06ncSmall = [][]byte{}
		for _, b := range ncPoints() {
			var p curve.EdwardsPoint
			if p.UnmarshalBinary(b) == nil && p.IsSmallOrder() {
				c06ncSmall = append(c06ncSmall, b)
			}
		}
	}
	return c06ncSmall
}

func (c *c06) countVer(ok bool) {
	if ok {
		c.r.Count(c06verAcc)
	} else {
		c.r.Count(c06verRej)
	}
}

func (c *c06) famEd25519() {
	t := c.t
	c.buildItems()
	// every item under every preset (the first item always; the others as the tape picks)
	for i, it := range c.items {
		if i > 0 && t.W(2) == 0 {
			continue
		}
		res := make([]bool, 4)
		for p := 0; p < 4; p++ {
			res[p] = ed25519.VerifyWithOptions(it.pk, it.msg, it.sig, c06withPreset(it.opts, p))
			c.countVer(res[p])
		}
		c.op("ed25519.VerifyWithOptions", "%s default/stdlib/fips/zip215 -> %s", it.tag, c06bits(res))
	}
	it := c.items[0]
	c.op("ed25519.Verify", "-> %v", ed25519.Verify(it.pk, it.msg, it.sig))
	// expanded keys
	for i, it := range c.items {
		if i > 0 && t.W(4) != 3 {
			continue
		}
		ek, err := ed25519.NewExpandedPublicKey(it.pk)
		if err != nil {
			c.op("ed25519.NewExpandedPublicKey", "%s -> err=true", it.tag)
			continue
		}
		cy := ek.CompressedY()
		res := make([]bool, 4)
		for p := 0; p < 4; p++ {
			res[p] = ed25519.VerifyExpandedWithOptions(ek, it.msg, it.sig, c06withPreset(it.opts, p))
			c.countVer(res[p])
		}
		c.op("ed25519.NewExpandedPublicKey", "%s -> err=false %s", it.tag, core.Hex8(cy[:]))
		c.op("ed25519.VerifyExpandedWithOptions", "%s -> %s", it.tag, c06bits(res))
	}
	ek, err := ed25519.NewExpandedPublicKey(it.pk)
	if err == nil {
		c.op("ed25519.VerifyExpanded", "-> %v", ed25519.VerifyExpanded(ek, it.msg, it.sig))
	}
	pub2, priv2, err := ed25519.GenerateKey(c.rd())
	c.op("ed25519.GenerateKey", "err=%v %s %s", err != nil, core.Hex8(pub2), core.Hex8(priv2))
}

func (c *c06) famEdBatch() {
	t := c.t
	c.buildItems()
	n := 1 + t.W(8)
	switch t.W(32) {
	case 31:
		n = 190 + t.W(10)
	case 30, 29:
		n = 96 + t.W(10)
	}
	if n >= 96 {
		c.r.Count(c06bigBatch)
	}
	// honest-only batches take the fast path; mixed ones fall back to per-entry verification
	honestOnly := t.W(2) == 1
	var honest []int
	for i, it := range c.items {
		switch it.tag {
		case "pure", "ctx", "ph", "hedged":
			honest = append(honest, i)
		}
	}
	v := ed25519.NewBatchVerifier()
	if t.W(4) == 3 {
		v = ed25519.NewBatchVerifierWithCapacity(n)
	}
	if t.W(4) == 3 {
		v.ForceNoPublicKeyExpansion()
	}
	exp := make([]*ed25519.ExpandedPublicKey, len(c.items))
	preset := []int{0, 2, 3}[t.W(3)]
	var desc []byte
	for i := 0; i < n; i++ {
		k := t.W(len(c.items))
		if honestOnly {
			k = honest[t.W(len(honest))]
		}
		it := c.items[k]
		p := preset
		if !honestOnly && t.W(8) == 7 {
			p = t.W(4) // occasionally a different preset, incl. the batch-incompatible stdlib one
		}
		o := c06withPreset(it.opts, p)
		mode := t.W(3)
		if mode == 2 {
			if exp[k] == nil {
				exp[k], _ = ed25519.NewExpandedPublicKey(it.pk)
			}
			if exp[k] == nil {
				mode = 0
			}
		}
		switch mode {
		case 2:
			v.AddExpandedWithOptions(exp[k], it.msg, it.sig, o)
		case 1:
			if p == 0 {
				v.Add(it.pk, it.msg, it.sig)
				if it.opts.Context != "" || it.opts.Hash != crypto.Hash(0) {
					// Add() means default options: the entry is then simply a different claim
					desc = append(desc, 0xff)
				}
			} else {
				v.AddWithOptions(it.pk, it.msg, it.sig, o)
			}
		default:
			v.AddWithOptions(it.pk, it.msg, it.sig, o)
		}
		desc = append(desc, byte(k), byte(p), byte(mode))
	}
	only := v.VerifyBatchOnly(c.rd())
	ok, res := v.Verify(c.rd())
	for _, b := range res {
		c.countVer(b)
	}
	c.op("ed25519.BatchVerifier.VerifyBatchOnly", "n=%d entries=%s -> %v", n, core.Hex8(desc), only)
	c.op("ed25519.BatchVerifier.Verify", "n=%d honest=%v -> %v %s", n, honestOnly, ok, c06bits(res))
	v.Reset()
	it := c.items[honest[0]]
	v.AddWithOptions(it.pk, it.msg, it.sig, c06withPreset(it.opts, 0))
	ok, res = v.Verify(c.rd())
	c.op("ed25519.BatchVerifier.Reset+Verify", "-> %v %s", ok, c06bits(res))
	ok, res = ed25519.NewBatchVerifier().Verify(c.rd())
	c.op("ed25519.BatchVerifier.Verify(empty)", "-> %v %d", ok, len(res))
}

// ---- ecvrf ------------------------------------------------------------------------

func (c *c06) famECVRF() {
	t, g := c.t, c.g
	priv := g.EdKey()
	pub := ed25519.PublicKey(priv[32:])
	alpha := g.Msg()
	pi := ecvrf.Prove(priv, alpha)
	c.op("ecvrf.Prove", "%s -> %s", core.Hex8(alpha), core.Hex8(pi))
	ok, beta := ecvrf.Verify(pub, pi, alpha)
	c.op("ecvrf.Verify", "-> %v %s", ok, core.Hex8(beta))
	h, err := ecvrf.ProofToHash(pi)
	c.op("ecvrf.ProofToHash", "-> err=%v %s", err != nil, core.Hex8(h))
	pi10 := ecvrf.Prove_v10(priv, alpha)
	c.op("ecvrf.Prove_v10", "-> %s", core.Hex8(pi10))
	ok, beta = ecvrf.Verify_v10(pub, pi10, alpha)
	ok2, _ := ecvrf.Verify(pub, pi10, alpha)
	c.op("ecvrf.Verify_v10", "-> %v %s cross=%v", ok, core.Hex8(beta), ok2)
	switch t.W(3) {
	case 0:
		pr, err := ecvrf.ProveWithAddedRandomness(c.rd(), priv, alpha)
		c.op("ecvrf.ProveWithAddedRandomness", "-> err=%v %s", err != nil, core.Hex8(pr))
		if err == nil {
			ok, beta = ecvrf.Verify(pub, pr, alpha)
			c.op("ecvrf.Verify(hedged proof)", "-> %v %s", ok, core.Hex8(beta))
		}
	case 1:
		pr, err := ecvrf.ProveWithAddedRandomness_v10(c.rd(), priv, alpha)
		c.op("ecvrf.ProveWithAddedRandomness_v10", "-> err=%v %s", err != nil, core.Hex8(pr))
	default:
		pr, err := ecvrf.ProveWithAddedRandomness(c.rd(), priv, alpha)
		c.op("ecvrf.ProveWithAddedRandomness", "-> err=%v %s", err != nil, core.Hex8(pr))
	}
	// altered proof / alpha / key
	bad := clone(pi)
	bad[t.W(len(bad))] ^= 1 << uint(t.W(8))
	ok, beta = ecvrf.Verify(pub, bad, alpha)
	h, err = ecvrf.ProofToHash(bad)
	c.op("ecvrf.Verify(altered proof)", "-> %v %s; ProofToHash err=%v %s", ok, core.Hex8(beta), err != nil, core.Hex8(h))
	if t.W(2) == 1 {
		ok, beta = ecvrf.Verify(pub, pi, append(clone(alpha), 0))
		c.op("ecvrf.Verify(altered alpha)", "-> %v %s", ok, core.Hex8(beta))
	} else {
		pk, _ := c.yPattern()
		if t.W(2) == 1 {
			pk = edBytes(curve.EIGHT_TORSION[t.W(8)])
		}
		ok, beta = ecvrf.Verify(pk, pi, alpha)
		c.op("ecvrf.Verify(arbitrary key)", "%s -> %v %s", core.Hex8(pk), ok, core.Hex8(beta))
	}
}

// ---- h2c --------------------------------------------------------------------------

var (
	c06outLens = []int{1, 32, 48, 255, 256}
	c06dstLens = []int{1, 16, 43, 254, 255, 256, 300}
)

func (c *c06) dst() []byte {
	t := c.t
	return c.g.Bytes(c06dstLens[t.W(len(c06dstLens))])
}

func c06edOrErr(p *curve.EdwardsPoint, err error) string {
	if err != nil || p == nil {
		return "err=true"
	}
	return "err=false " + c06he(p)
}

func c06risOrErr(p *curve.RistrettoPoint, err error) string {
	if err != nil || p == nil {
		return "err=true"
	}
	return "err=false " + c06hr(p)
}

func (c *c06) famH2C() {
	t, g := c.t, c.g
	msg := g.Msg()
	// expand_message_xmd / xof: one fixed pair each run, more as the tape picks
	for i, n := 0, 1+t.W(3); i < n; i++ {
		hf, name := crypto.SHA512, "sha512"
		if (i == 0) != (t.W(2) == 1) {
			hf, name = crypto.SHA256, "sha256"
		}
		l := c06outLens[t.W(len(c06outLens))]
		if t.W(16) == 15 {
			l = []int{0, 8160, 8161, 16320, 16321}[t.W(5)]
		}
		d := c.dst()
		out := make([]byte, l)
		err := h2c.ExpandMessageXMD(out, hf, d, msg)
		c.op("h2c.ExpandMessageXMD("+name+")", "out=%d dst=%d msg=%s -> err=%v %s", l, len(d), core.Hex8(msg), err != nil, core.Hex8(out))
	}
	for i, n := 0, 1+t.W(3); i < n; i++ {
		var x sha3.ShakeHash
		name := "shake128"
		if (i == 0) != (t.W(2) == 1) {
			x, name = sha3.NewShake256(), "shake256"
		} else {
			x = sha3.NewShake128()
		}
		if t.W(4) == 3 {
			x.Write([]byte("caller data that must be ignored")) // the library clones and resets
		}
		l := c06outLens[t.W(len(c06outLens))]
		d := c.dst()
		out := make([]byte, l)
		err := h2c.ExpandMessageXOF(out, x, d, msg)
		c.op("h2c.ExpandMessageXOF("+name+")", "out=%d dst=%d -> err=%v %s", l, len(d), err != nil, core.Hex8(out))
	}
	d := c.dst()
	c.op("h2c.Edwards25519_XMD_SHA512_ELL2_RO", "dst=%d -> %s", len(d), c06edOrErr(h2c.Edwards25519_XMD_SHA512_ELL2_RO(d, msg)))
	c.op("h2c.Edwards25519_XMD_SHA512_ELL2_NU", "dst=%d -> %s", len(d), c06edOrErr(h2c.Edwards25519_XMD_SHA512_ELL2_NU(d, msg)))
	c.op("h2c.Ristretto255_XMD_R255MAP_RO(sha512)", "dst=%d -> %s", len(d), c06risOrErr(h2c.Ristretto255_XMD_R255MAP_RO(crypto.SHA512, d, msg)))
	c.op("h2c.Ristretto255_XOF_R255MAP_RO(shake256)", "dst=%d -> %s", len(d), c06risOrErr(h2c.Ristretto255_XOF_R255MAP_RO(sha3.NewShake256(), d, msg)))
	for i, n := 0, 1+t.W(3); i < n; i++ {
		d := c.dst()
		m := g.Msg()
		switch t.W(6) {
		case 0:
			c.op("h2c.Edwards25519_XMD_ELL2_RO(sha256)", "dst=%d -> %s", len(d), c06edOrErr(h2c.Edwards25519_XMD_ELL2_RO(crypto.SHA256, d, m)))
		case 1:
			c.op("h2c.Edwards25519_XMD_ELL2_NU(sha256)", "dst=%d -> %s", len(d), c06edOrErr(h2c.Edwards25519_XMD_ELL2_NU(crypto.SHA256, d, m)))
		case 2:
			c.op("h2c.Edwards25519_XOF_ELL2_RO(shake128)", "dst=%d -> %s", len(d), c06edOrErr(h2c.Edwards25519_XOF_ELL2_RO(sha3.NewShake128(), d, m)))
		case 3:
			c.op("h2c.Edwards25519_XOF_ELL2_NU(shake256)", "dst=%d -> %s", len(d), c06edOrErr(h2c.Edwards25519_XOF_ELL2_NU(sha3.NewShake256(), d, m)))
		case 4:
			c.op("h2c.Ristretto255_XMD_R255MAP_RO(sha256)", "dst=%d -> %s", len(d), c06risOrErr(h2c.Ristretto255_XMD_R255MAP_RO(crypto.SHA256, d, m)))
		default:
			c.op("h2c.Ristretto255_XOF_R255MAP_RO(shake128)", "dst=%d -> %s", len(d), c06risOrErr(h2c.Ristretto255_XOF_R255MAP_RO(sha3.NewShake128(), d, m)))
		}
	}
}

// ---- merlin -----------------------------------------------------------------------

var c06merlinLens = []int{0, 1, 32, 64, 165, 166, 167, 168, 200, 331, 332, 333, 400}

func (c *c06) mlen() int { return c06merlinLens[c.t.W(len(c06merlinLens))] }

func (c *c06) famMerlin() {
	t, g := c.t, c.g
	tr := merlin.NewTranscript(string(g.Bytes(1 + t.W(20))))
	c.op("merlin.NewTranscript", "")
	var cl *merlin.Transcript
	for i, n := 0, 3+t.W(6); i < n; i++ {
		lbl := string(g.Bytes(1 + t.W(12)))
		switch t.W(4) {
		case 0, 1:
			m := g.Bytes(c.mlen())
			tr.AppendMessage(lbl, m)
			c.op("merlin.AppendMessage", "%s %s", core.Hex8([]byte(lbl)), core.Hex8(m))
		case 2:
			out := make([]byte, c.mlen())
			tr.ExtractBytes(out, lbl)
			c.op("merlin.ExtractBytes", "%s %d -> %s", core.Hex8([]byte(lbl)), len(out), core.Hex8(out))
		default:
			cl = tr.Clone()
			tr.AppendMessage("after-clone", []byte{byte(i)})
			c.op("merlin.Clone", "")
		}
	}
	out := make([]byte, 1+c.mlen())
	tr.ExtractBytes(out, "final")
	c.op("merlin.ExtractBytes", "final %d -> %s", len(out), core.Hex8(out))
	if cl == nil {
		cl = tr.Clone()
		c.op("merlin.Clone", "")
	}
	o2 := make([]byte, 64)
	cl.ExtractBytes(o2, "final")
	c.op("merlin.ExtractBytes(clone)", "-> %s", core.Hex8(o2))
	rb := tr.BuildRng()
	c.op("merlin.BuildRng", "")
	for i, n := 0, 1+t.W(3); i < n; i++ {
		w := g.Bytes(c.mlen())
		rb.RekeyWithWitnessBytes("witness", w)
		c.op("merlin.RekeyWithWitnessBytes", "%s", core.Hex8(w))
	}
	rng, err := rb.Finalize(c.rd())
	if err != nil {
		c.op("merlin.Finalize", "err=true")
		return
	}
	c.op("merlin.Finalize", "err=false")
	for i, n := 0, 1+t.W(3); i < n; i++ {
		buf := make([]byte, c.mlen())
		m, err := rng.Read(buf)
		c.op("merlin.Rng.Read", "%d -> %d err=%v %s", len(buf), m, err != nil, core.Hex8(buf))
	}
}

// ---- sr25519 ----------------------------------------------------------------------

func (c *c06) famSr25519() {
	t, g := c.t, c.g
	msk, err := sr25519.NewMiniSecretKeyFromBytes(g.Bytes(32))
	if err != nil {
		c.op("sr25519.NewMiniSecretKeyFromBytes", "err=true")
		return
	}
	skU, skE := msk.ExpandUniform(), msk.ExpandEd25519()
	bU, errU := skU.MarshalBinary()
	bE, errE := skE.MarshalBinary()
	c.op("sr25519.MiniSecretKey.ExpandUniform", "-> err=%v %s", errU != nil, core.Hex8(bU))
	c.op("sr25519.MiniSecretKey.ExpandEd25519", "-> err=%v %s", errE != nil, core.Hex8(bE))
	sk := skU
	if t.W(2) == 1 {
		sk = skE
	}
	kp := sk.KeyPair()
	pk := kp.PublicKey()
	pkb, err := pk.MarshalBinary()
	c.op("sr25519.SecretKey.PublicKey", "-> err=%v %s", err != nil, core.Hex8(pkb))
	kpb, err := kp.MarshalBinary()
	kp2, err2 := sr25519.NewKeyPairFromBytes(kpb)
	c.op("sr25519.KeyPair.MarshalBinary", "-> err=%v %s back err=%v same=%v", err != nil, core.Hex8(kpb), err2 != nil, err2 == nil && kp2.PublicKey().Equal(pk))
	pk2, err := sr25519.NewPublicKeyFromBytes(pkb)
	c.op("sr25519.NewPublicKeyFromBytes", "-> err=%v equal=%v", err != nil, err == nil && pk2.Equal(pk))
	junk, _ := c.yPattern()
	_, err = sr25519.NewPublicKeyFromBytes(junk)
	c.op("sr25519.NewPublicKeyFromBytes(arbitrary)", "%s -> err=%v", core.Hex8(junk), err != nil)
	// ed25519-expanded secret key import
	h := sha512.Sum512(g.Bytes(32))
	h[0] &= 248
	h[31] &= 63
	h[31] |= 64
	ske, err := sr25519.NewSecretKeyFromEd25519Bytes(h[:])
	if err == nil {
		b, _ := ske.MarshalBinary()
		pb, _ := ske.PublicKey().MarshalBinary()
		c.op("sr25519.NewSecretKeyFromEd25519Bytes", "-> err=false %s %s", core.Hex8(b), core.Hex8(pb))
	} else {
		c.op("sr25519.NewSecretKeyFromEd25519Bytes", "-> err=true")
	}

	ctx := sr25519.NewSigningContext(g.Bytes(t.W(40)))
	msg := g.Msg()
	kinds := []string{"bytes", "hash-sha512", "hash-sha3-256", "xof-shake128"}
	mk := func(kind int, m []byte) *sr25519.SigningTranscript {
		switch kind {
		case 0:
			return ctx.NewTranscriptBytes(m)
		case 1:
			hh := sha512.New()
			hh.Write(m)
			return ctx.NewTranscriptHash(hh)
		case 2:
			hh := sha3.New256()
			hh.Write(m)
			return ctx.NewTranscriptHash(hh)
		default:
			x := sha3.NewShake128()
			x.Write(m)
			return ctx.NewTranscriptXOF(x)
		}
	}
	type ent struct {
		kind int
		msg  []byte
		sig  *sr25519.Signature
		good bool
	}
	var ents []ent
	first := t.W(4)
	for k := 0; k < 4; k++ {
		if k != first && t.W(2) == 0 {
			continue
		}
		sig, err := kp.Sign(c.rd(), mk(k, msg))
		if err != nil {
			c.op("sr25519.Sign("+kinds[k]+")", "-> err=true")
			continue
		}
		sb, err := sig.MarshalBinary()
		c.op("sr25519.Sign("+kinds[k]+")", "%s -> err=%v %s", core.Hex8(msg), err != nil, core.Hex8(sb))
		ok := pk.Verify(mk(k, msg), sig)
		c.countVer(ok)
		bad := pk.Verify(mk(k, append(clone(msg), 0)), sig)
		c.countVer(bad)
		cross := pk.Verify(mk((k+1)%4, msg), sig)
		c.op("sr25519.Verify("+kinds[k]+")", "-> %v altered-message=%v other-transcript-kind=%v", ok, bad, cross)
		ents = append(ents, ent{k, msg, sig, ok})
		// altered signature bytes
		fl := clone(sb)
		fl[t.W(64)] ^= 1 << uint(t.W(8))
		s2, err := sr25519.NewSignatureFromBytes(fl)
		if err != nil {
			c.op("sr25519.NewSignatureFromBytes(altered)", "-> err=true")
		} else {
			ok := pk.Verify(mk(k, msg), s2)
			c.countVer(ok)
			c.op("sr25519.NewSignatureFromBytes(altered)", "-> err=false verify=%v", ok)
			if t.W(2) == 1 {
				ents = append(ents, ent{k, msg, s2, ok})
			}
		}
	}
	if len(ents) == 0 {
		return
	}
	// batch
	n := 1 + t.W(8)
	if t.W(32) == 31 {
		n = 64 + t.W(40)
		c.r.Count(c06bigBatch)
	}
	honestOnly := t.W(2) == 1
	v := sr25519.NewBatchVerifier()
	var desc []byte
	for i := 0; i < n; i++ {
		k := t.W(len(ents))
		e := ents[k]
		if honestOnly {
			for j := 0; j < len(ents) && !e.good; j++ {
				k = (k + 1) % len(ents)
				e = ents[k]
			}
		}
		v.Add(pk, mk(e.kind, e.msg), e.sig)
		desc = append(desc, byte(k))
	}
	only := v.VerifyBatchOnly(c.rd())
	ok, res := v.Verify(c.rd())
	c.op("sr25519.BatchVerifier.VerifyBatchOnly", "n=%d entries=%s -> %v", n, core.Hex8(desc), only)
	c.op("sr25519.BatchVerifier.Verify", "n=%d -> %v %s", n, ok, c06bits(res))
	ok, res = sr25519.NewBatchVerifier().Verify(c.rd())
	c.op("sr25519.BatchVerifier.Verify(empty)", "-> %v %d", ok, len(res))
}
