package work

import (
	"crypto"
	_ "crypto/sha256"
	"crypto/sha512"
	"encoding/binary"
	"fmt"

	"golang.org/x/crypto/sha3"

	"github.com/oasisprotocol/curve25519-voi/curve"
	"github.com/oasisprotocol/curve25519-voi/curve/scalar"
	"github.com/oasisprotocol/curve25519-voi/primitives/ed25519"
	"github.com/oasisprotocol/curve25519-voi/primitives/ed25519/extra/ecvrf"
	"github.com/oasisprotocol/curve25519-voi/primitives/h2c"
	"github.com/oasisprotocol/curve25519-voi/primitives/merlin"
	"github.com/oasisprotocol/curve25519-voi/primitives/sr25519"
	"github.com/oasisprotocol/curve25519-voi/primitives/x25519"

	"verifsim/core"
)

// C06: the API tour.  The workload never judges anything: it executes a broad,
// tape-determined sweep over the exported operations of every package and logs
// a digest of the canonical output of each (bytes, booleans, error presence).
// The driver runs the same indices on the four builds and compares the per-index
// event-log digests; any observable backend difference is a digest difference.
//
// Logging rules: canonical encodings only (never limbs, pointers, timing or map
// order); errors as "err=true/false" (two unreachable internal messages name
// their backend); a panic only as "family X: panic".

var (
	c06ops      = core.RegCounter("c06.logged_operations")
	c06kinds    = core.RegCounter("c06.operation_kinds_per_run_summed")
	c06panics   = core.RegCounter("c06.family_panics")
	c06fScalar  = core.RegCounter("c06.family.scalar")
	c06fRecode  = core.RegCounter("c06.family.scalar_recoding")
	c06fEd      = core.RegCounter("c06.family.edwards_group")
	c06fEdMul   = core.RegCounter("c06.family.edwards_scalar_mul")
	c06fEdMSM   = core.RegCounter("c06.family.edwards_multiscalar")
	c06fEdExp   = core.RegCounter("c06.family.edwards_expanded")
	c06fEdCodec = core.RegCounter("c06.family.edwards_codec")
	c06fMont    = core.RegCounter("c06.family.montgomery")
	c06fRis     = core.RegCounter("c06.family.ristretto_group")
	c06fRisMSM  = core.RegCounter("c06.family.ristretto_multiscalar_expanded")
	c06fRisCod  = core.RegCounter("c06.family.ristretto_codec")
	c06fX       = core.RegCounter("c06.family.x25519")
	c06fEdSign  = core.RegCounter("c06.family.ed25519_sign_verify")
	c06fEdBatch = core.RegCounter("c06.family.ed25519_batch")
	c06fVRF     = core.RegCounter("c06.family.ecvrf")
	c06fH2C     = core.RegCounter("c06.family.h2c")
	c06fMerlin  = core.RegCounter("c06.family.merlin")
	c06fSr      = core.RegCounter("c06.family.sr25519")
	c06pip      = core.RegCounter("c06.multiscalar_calls_at_or_above_pippenger_threshold")
	c06huge     = core.RegCounter("c06.multiscalar_calls_with_500_or_800_terms")
	c06bigBatch = core.RegCounter("c06.batches_with_100_or_more_entries")
	c06unred    = core.RegCounter("c06.unreduced_scalar_operands")
	c06torsion  = core.RegCounter("c06.torsion_or_mixed_order_point_operands")
	c06decOK    = core.RegCounter("c06.decompressions_accepted")
	c06decRej   = core.RegCounter("c06.decompressions_rejected")
	c06verAcc   = core.RegCounter("c06.signature_verifications_accepted")
	c06verRej   = core.RegCounter("c06.signature_verifications_rejected")
)

func init() {
	Register(&Workload{
		Name:     "C06",
		Property: "C06",
		Phase:    "API tour replayed on every backend",
		Variants: []string{"plain", "noavx2", "purego", "force32bit"},
		Rule: "per run: one tape-determined tour over 19 operation families of curve/scalar, curve (Edwards, Montgomery, Ristretto, expanded points, user-built tables), x25519, ed25519 (+batch, expanded keys), ecvrf, h2c, merlin and sr25519, executed in a tape-shuffled order; " +
			"operands are drawn from the tape as a mix of random values and boundary values: scalars {0, 1, L-1, L, L+1, kL+j, 2^252, 2^255-1, 2^k, 2^k-1, byte runs of 0x00/0xff, random reduced, random unreduced 255-bit via SetBits}, points {identity, basepoint, the 8-torsion points, basepoint multiples plus torsion, decoded random strings, sums of those}, encodings {random strings, y>=p and x=0 non-canonical forms, limb-pattern y values}, multiscalar lengths from {0,1,2,3,7,8,31,32,63,64,189,190,191,250} and rarely {500,800}, batch sizes 1..8 and occasionally ~100/~195, message/label/DST lengths at hash-block, STROBE-rate (166/332) and 255/256 seams; every entropy reader is a deterministic reader with a tape-drawn seed; " +
			"every operation appends one event carrying a digest of its canonical output (encoded bytes, booleans, err!=nil; a recovered panic only as 'family X: panic'); non-trivial = every run (each run executes every family at least once, i.e. >= 40 distinct operation kinds; the count is asserted); " +
			"oracle: the SHA-256 of the run's event log must be equal, index by index, across the four builds {amd64 asm + AVX2, amd64 asm with GODEBUG=cpu.avx2=off, -tags purego, -tags force32bit}; the workload itself never reports a violation",
		Real: []string{"curve/scalar", "curve (Edwards, Montgomery, Ristretto, precomputation, Straus/Pippenger/Abglsv-Pornin)", "internal/field (whichever backend the build selects)", "internal/strobe Keccak-f[1600] (assembly or Go)", "primitives/x25519", "primitives/ed25519 (+batch, expanded keys)", "primitives/ed25519/extra/ecvrf", "primitives/h2c", "primitives/merlin", "primitives/sr25519", "internal/lattice, internal/elligator"},
		Stub: []string{"entropy: deterministic readers seeded from the tape"},
		Run:  runC06,
	})
}

type c06 struct {
	e     *Env
	r     *core.Run
	t     *core.Tape
	g     *Gen
	kinds map[string]struct{} // only its size is ever used
	eds   []*curve.EdwardsPoint
	riss  []*curve.RistrettoPoint
	// shared between the ed25519 families of one run
	items []c06Item
}

type c06Item struct {
	pk, msg, sig []byte
	opts         *ed25519.Options
	tag          string
}

// op logs one operation.  kind identifies the operation kind (API entry point
// and variant); the rest is a rendering of operand and result digests.
func (c *c06) op(kind, format string, args ...interface{}) {
	c.kinds[kind] = struct{}{}
	c.r.Ev(kind+" "+format, args...)
	c.r.AddSteps(1)
	c.r.Count(c06ops)
}

func (c *c06) fam(name string, ctr int, f func()) {
	c.r.Count(ctr)
	if pan, _ := Guard(f); pan {
		c.r.Count(c06panics)
		c.r.Ev("family %s: panic", name)
		c.r.AddSteps(1)
	}
}

func (c *c06) rd() *DetReader { return NewDetReader(uint64(c.t.W(1<<30)) + 1) }

func runC06(e *Env, r *core.Run) {
	c := &c06{e: e, r: r, t: r.T, g: &Gen{T: r.T}, kinds: map[string]struct{}{}}
	c.fam("pool", c06fEd, c.buildPools)
	type fam struct {
		name string
		ctr  int
		f    func()
	}
	fams := []fam{
		{"scalar", c06fScalar, c.famScalar},
		{"scalar-recoding", c06fRecode, c.famRecode},
		{"edwards-group", c06fEd, c.famEdwards},
		{"edwards-mul", c06fEdMul, c.famEdMul},
		{"edwards-msm", c06fEdMSM, c.famEdMSM},
		{"edwards-expanded", c06fEdExp, c.famEdExpanded},
		{"edwards-codec", c06fEdCodec, c.famEdCodec},
		{"montgomery", c06fMont, c.famMontgomery},
		{"ristretto-group", c06fRis, c.famRistretto},
		{"ristretto-msm", c06fRisMSM, c.famRisMSM},
		{"ristretto-codec", c06fRisCod, c.famRisCodec},
		{"x25519", c06fX, c.famX25519},
		{"ed25519", c06fEdSign, c.famEd25519},
		{"ed25519-batch", c06fEdBatch, c.famEdBatch},
		{"ecvrf", c06fVRF, c.famECVRF},
		{"h2c", c06fH2C, c.famH2C},
		{"merlin", c06fMerlin, c.famMerlin},
		{"sr25519", c06fSr, c.famSr25519},
	}
	// tape-drawn order (exhausted tape: a fixed order); ed25519 must precede its
	// batch family only in the sense that the batch builds its own items if none exist.
	for i := len(fams) - 1; i > 0; i-- {
		j := c.t.W(i + 1)
		fams[i], fams[j] = fams[j], fams[i]
	}
	for _, f := range fams {
		r.Ev("family %s", f.name)
		c.fam(f.name, f.ctr, f.f)
	}
	r.CountN(c06kinds, int64(len(c.kinds)))
	r.Ev("kinds=%d", len(c.kinds))
	r.Nontrivial = len(c.kinds) >= 40
}

// ---- operand generators ---------------------------------------------------------

func c06sb(s *scalar.Scalar) []byte {
	b := make([]byte, 32)
	if err := s.ToBytes(b); err != nil {
		return nil
	}
	return b
}

func c06hs(s *scalar.Scalar) string          { return core.Hex8(c06sb(s)) }
func c06he(p *curve.EdwardsPoint) string     { return core.Hex8(edBytes(p)) }
func c06hr(p *curve.RistrettoPoint) string   { return core.Hex8(risBytes(p)) }
func c06i8(d []int8) string {
	b := make([]byte, len(d))
	for i, v := range d {
		b[i] = byte(v)
	}
	return core.Hex8(b)
}

func c06bits(bs []bool) string {
	if len(bs) <= 16 {
		s := make([]byte, len(bs))
		for i, b := range bs {
			s[i] = '0' + bb(b)
		}
		return string(s)
	}
	s := make([]byte, len(bs))
	n := 0
	for i, b := range bs {
		s[i] = bb(b)
		n += int(s[i])
	}
	return fmt.Sprintf("%s(%d true of %d)", core.Hex8(s), n, len(bs))
}

// scBytes draws the 32-byte pattern of a scalar operand (boundary or random).
func (c *c06) scBytes() []byte {
	t := c.t
	b := make([]byte, 32)
	switch t.W(16) {
	case 0, 15:
		return c06sb(c.g.Scalar()) // random, reduced
	case 1, 14:
		copy(b, c.g.Bytes(32)) // random 255-bit (SetBits clears bit 255), usually >= L
	case 2: // zero
	case 3:
		b[0] = 1
	case 4:
		copy(b, groupOrderL[:])
		b[0]-- // L-1
	case 5:
		copy(b, groupOrderL[:]) // L
	case 6:
		copy(b, groupOrderL[:])
		b[0]++ // L+1
	case 7:
		b[31] = 0x10 // 2^252
	case 8:
		for i := range b {
			b[i] = 0xff // 2^255-1 after SetBits
		}
	case 9:
		k := t.W(255)
		b[k/8] = 1 << uint(k%8) // 2^k
	case 10:
		k := 1 + t.W(255) // 2^k - 1
		for i := 0; i < k; i++ {
			b[i/8] |= 1 << uint(i%8)
		}
	case 11:
		binary.LittleEndian.PutUint64(b, uint64(t.W(1<<16)))
	case 12: // random with a run of 0x00 / 0xff bytes (carry chains)
		copy(b, c.g.Bytes(32))
		lo := t.W(32)
		n := 1 + t.W(32-lo)
		v := byte(0xff * t.W(2))
		for i := lo; i < lo+n; i++ {
			b[i] = v
		}
	default: // kL + j, k in 1..7, j in -3..16
		j := t.W(20) - 3
		if j >= 0 {
			b[0] = byte(j)
		}
		for k := 1 + t.W(7); k > 0; k-- {
			addL(b)
		}
		if j < 0 { // subtract -j (no borrow past byte 0 can reach zero: L's low byte is 0xed)
			for i, d := 0, -j; i < 32 && d > 0; i++ {
				v := int(b[i]) - d
				d = 0
				if v < 0 {
					v += 256
					d = 1
				}
				b[i] = byte(v)
			}
		}
	}
	b[31] &= 0x7f
	return b
}

func (c *c06) sc() *scalar.Scalar {
	s, err := scalar.NewFromBits(c.scBytes())
	if err != nil {
		panic("harness: NewFromBits on 32 bytes failed")
	}
	if !s.IsCanonical() {
		c.r.Count(c06unred)
	}
	return s
}

// scNZ draws a scalar that is non-zero modulo L (precondition of Invert).
func (c *c06) scNZ() *scalar.Scalar {
	s := c.sc()
	if scalar.New().Reduce(s).Equal(scalar.New()) == 1 {
		return scalar.One()
	}
	return s
}

func (c *c06) scs(n int) []*scalar.Scalar {
	out := make([]*scalar.Scalar, n)
	for i := range out {
		out[i] = c.sc()
	}
	return out
}

var (
	c06lenSmall = []int{0, 1, 2, 3, 7, 8}
	c06lenMid   = []int{31, 32, 63, 64}
	c06lenLarge = []int{189, 190, 191, 250}
	c06lenHuge  = []int{500, 800}
)

// msmLen draws a multiscalar length; large lengths only occasionally.
func (c *c06) msmLen() int {
	t := c.t
	switch k := t.W(64); {
	case k == 63:
		return c06lenHuge[t.W(len(c06lenHuge))]
	case k >= 55:
		return c06lenLarge[t.W(len(c06lenLarge))]
	case k >= 40:
		return c06lenMid[t.W(len(c06lenMid))]
	default:
		return c06lenSmall[t.W(len(c06lenSmall))]
	}
}

func (c *c06) noteLen(n int) {
	if n >= 190 {
		c.r.Count(c06pip)
	}
	if n >= 500 {
		c.r.Count(c06huge)
	}
}

func (c *c06) buildPools() {
	t := c.t
	add := func(tag string, p *curve.EdwardsPoint) {
		c.eds = append(c.eds, p)
		c.op("pool.edwards", "%d %s -> %s", len(c.eds)-1, tag, c06he(p))
	}
	add("identity", curve.NewEdwardsPoint())
	add("basepoint", curve.NewEdwardsPoint().Set(curve.ED25519_BASEPOINT_POINT))
	k := t.W(8)
	add(fmt.Sprintf("torsion[%d]", k), curve.NewEdwardsPoint().Set(curve.EIGHT_TORSION[k]))
	k = 1 + t.W(7)
	add(fmt.Sprintf("torsion[%d]", k), curve.NewEdwardsPoint().Set(curve.EIGHT_TORSION[k]))
	add("random*B", c.g.EdPoint())
	k = 1 + t.W(7)
	add(fmt.Sprintf("random*B+torsion[%d]", k), curve.NewEdwardsPoint().Add(c.g.EdPoint(), curve.EIGHT_TORSION[k]))
	add("boundary*B", curve.NewEdwardsPoint().MulBasepoint(curve.ED25519_BASEPOINT_TABLE, c.sc()))
	for tries := 0; tries < 6; tries++ {
		var cy curve.CompressedEdwardsY
		copy(cy[:], c.g.Bytes(32))
		var p curve.EdwardsPoint
		if _, err := p.SetCompressedY(&cy); err == nil {
			add("decoded-random", &p) // almost surely of mixed order
			break
		}
	}
	addR := func(tag string, p *curve.RistrettoPoint) {
		c.riss = append(c.riss, p)
		c.op("pool.ristretto", "%d %s -> %s", len(c.riss)-1, tag, c06hr(p))
	}
	addR("identity", curve.NewRistrettoPoint())
	addR("basepoint", curve.NewRistrettoPoint().Set(curve.RISTRETTO_BASEPOINT_POINT))
	addR("random*B", c.g.RisPoint())
	addR("boundary*B", curve.NewRistrettoPoint().MulBasepoint(curve.RISTRETTO_BASEPOINT_TABLE, c.sc()))
	var u curve.RistrettoPoint
	if _, err := u.SetUniformBytes(c.g.Bytes(64)); err == nil {
		addR("uniform", &u)
	}
}

// ed draws an Edwards point operand: a pool point, or the sum of two.
func (c *c06) ed() *curve.EdwardsPoint {
	t := c.t
	i := t.W(len(c.eds))
	p := c.eds[i]
	if i == 2 || i == 3 || i == 5 || i == 7 {
		c.r.Count(c06torsion)
	}
	if t.W(4) == 3 {
		return curve.NewEdwardsPoint().Add(p, c.eds[t.W(len(c.eds))])
	}
	return p
}

func (c *c06) ris() *curve.RistrettoPoint {
	t := c.t
	p := c.riss[t.W(len(c.riss))]
	if t.W(4) == 3 {
		return curve.NewRistrettoPoint().Add(p, c.riss[t.W(len(c.riss))])
	}
	return p
}

// edMany builds n point operands cheaply: pool points and a running sum.
func (c *c06) edMany(n int) []*curve.EdwardsPoint {
	t := c.t
	out := make([]*curve.EdwardsPoint, n)
	acc := curve.NewEdwardsPoint().Set(c.eds[4])
	for i := range out {
		if t.W(4) == 0 {
			out[i] = c.eds[t.W(len(c.eds))]
			continue
		}
		acc.Add(acc, c.eds[1+t.W(len(c.eds)-1)])
		out[i] = curve.NewEdwardsPoint().Set(acc)
	}
	return out
}

func (c *c06) risMany(n int) []*curve.RistrettoPoint {
	t := c.t
	out := make([]*curve.RistrettoPoint, n)
	acc := curve.NewRistrettoPoint().Set(c.riss[2])
	for i := range out {
		if t.W(4) == 0 {
			out[i] = c.riss[t.W(len(c.riss))]
			continue
		}
		acc.Add(acc, c.riss[1+t.W(len(c.riss)-1)])
		out[i] = curve.NewRistrettoPoint().Set(acc)
	}
	return out
}

// silence unused imports until every family is in place
var (
	_ = crypto.SHA512
	_ = sha512.New
	_ = sha3.NewShake128
	_ = ecvrf.Prove
	_ = h2c.ExpandMessageXMD
	_ = merlin.NewTranscript
	_ = sr25519.NewSigningContext
	_ = x25519.Basepoint
)

// ---- curve/scalar ----------------------------------------------------------------

func (c *c06) famScalar() {
	t := c.t
	a, b := c.sc(), c.sc()
	ha, hb := c06hs(a), c06hs(b)
	o := scalar.New()
	c.op("scalar.Add", "%s %s -> %s", ha, hb, c06hs(o.Add(a, b)))
	c.op("scalar.Sub", "%s %s -> %s", ha, hb, c06hs(o.Sub(a, b)))
	c.op("scalar.Mul", "%s %s -> %s", ha, hb, c06hs(o.Mul(a, b)))
	c.op("scalar.Neg", "%s -> %s", ha, c06hs(o.Neg(a)))
	c.op("scalar.Reduce", "%s -> %s", ha, c06hs(o.Reduce(a)))
	c.op("scalar.IsCanonical", "%s -> %v %s -> %v", ha, a.IsCanonical(), hb, b.IsCanonical())
	c.op("scalar.Equal", "%s %s -> %d self=%d", ha, hb, a.Equal(b), a.Equal(scalar.New().Set(a)))
	// aliasing forms: receiver is an operand
	x := scalar.New().Set(a)
	x.Mul(x, x)
	y := scalar.New().Set(a)
	y.Add(y, b)
	z := scalar.New().Set(b)
	z.Sub(a, z)
	c.op("scalar.aliased", "sq=%s add=%s sub=%s", c06hs(x), c06hs(y), c06hs(z))
	nz := c.scNZ()
	inv := scalar.New().Invert(nz)
	c.op("scalar.Invert", "%s -> %s check=%s", c06hs(nz), c06hs(inv), c06hs(scalar.New().Mul(inv, nz)))
	// BatchInvert
	n := t.W(6)
	if t.W(8) == 7 {
		n = 16 + t.W(40)
	}
	in := make([]*scalar.Scalar, n)
	var ins []byte
	for i := range in {
		in[i] = c.scNZ()
		ins = append(ins, c06sb(in[i])...)
	}
	prod := scalar.New().BatchInvert(in)
	var outs []byte
	for i := range in {
		outs = append(outs, c06sb(in[i])...)
	}
	c.op("scalar.BatchInvert", "n=%d %s -> %s ret=%s", n, core.Hex8(ins), core.Hex8(outs), c06hs(prod))
	// Product / Sum
	vs := c.scs(t.W(7))
	c.op("scalar.Product", "n=%d -> %s", len(vs), c06hs(scalar.New().Product(vs)))
	c.op("scalar.Sum", "n=%d -> %s", len(vs), c06hs(scalar.New().Sum(vs)))
	// wide / mod-order / canonical decoding
	w := c.g.Bytes(64)
	switch t.W(6) {
	case 1:
		for i := range w {
			w[i] = 0xff
		}
	case 2:
		for i := 32; i < 64; i++ {
			w[i] = 0
		}
		copy(w, groupOrderL[:])
	case 3:
		for i := 0; i < 32; i++ {
			w[i] = 0
		}
		copy(w[32:], groupOrderL[:])
	case 4:
		lo := t.W(64)
		nn := 1 + t.W(64-lo)
		v := byte(0xff * t.W(2))
		for i := lo; i < lo+nn; i++ {
			w[i] = v
		}
	}
	ws, err := scalar.New().SetBytesModOrderWide(w)
	if err == nil {
		c.op("scalar.SetBytesModOrderWide", "%s -> %s", core.Hex8(w), c06hs(ws))
	} else {
		c.op("scalar.SetBytesModOrderWide", "%s -> err", core.Hex8(w))
	}
	raw := c.scBytes()
	if t.W(2) == 1 {
		raw[31] |= 0x80
	}
	ms, err := scalar.NewFromBytesModOrder(raw)
	if err == nil {
		c.op("scalar.SetBytesModOrder", "%s -> %s", core.Hex8(raw), c06hs(ms))
	} else {
		c.op("scalar.SetBytesModOrder", "%s -> err", core.Hex8(raw))
	}
	cs, err := scalar.NewFromCanonicalBytes(raw)
	c.op("scalar.SetCanonicalBytes", "%s -> err=%v %s", core.Hex8(raw), err != nil, c06scOrNil(cs))
	var us scalar.Scalar
	err = us.UnmarshalBinary(raw)
	mb, merr := us.MarshalBinary()
	c.op("scalar.UnmarshalBinary", "%s -> err=%v %s %v", core.Hex8(raw), err != nil, core.Hex8(mb), merr != nil)
	c.op("scalar.ScMinimalVartime", "%s -> %v", core.Hex8(raw), scalar.ScMinimalVartime(raw))
	var sel scalar.Scalar
	ch := t.W(2)
	sel.ConditionalSelect(a, b, ch)
	c.op("scalar.ConditionalSelect", "%d -> %s", ch, c06hs(&sel))
	rs, err := scalar.New().SetRandom(c.rd())
	c.op("scalar.SetRandom", "err=%v %s", err != nil, c06scOrNil(rs))
	u := uint64(t.W(1<<30))<<20 | uint64(t.W(1<<20))
	c.op("scalar.SetUint64", "%d -> %s one=%s zero=%s", u, c06hs(scalar.NewFromUint64(u)), c06hs(scalar.One()), c06hs(scalar.New().Set(a).Zero()))
	// a short chain mixing operations (values far from their operands' patterns)
	acc := scalar.New().Set(a)
	for i, m := 0, 1+t.W(6); i < m; i++ {
		switch t.W(4) {
		case 0:
			acc.Mul(acc, b)
		case 1:
			acc.Add(acc, c.sc())
		case 2:
			acc.Sub(c.sc(), acc)
		default:
			acc.Mul(acc, acc)
		}
	}
	c.op("scalar.chain", "-> %s", c06hs(acc))
}

func c06scOrNil(s *scalar.Scalar) string {
	if s == nil {
		return "nil"
	}
	return c06hs(s)
}

func (c *c06) famRecode() {
	t := c.t
	s := c.sc()
	hs := c06hs(s)
	for w := uint(2); w <= 8; w++ {
		naf := s.NonAdjacentForm(w)
		c.op(fmt.Sprintf("scalar.NonAdjacentForm(%d)", w), "%s -> %s", hs, c06i8(naf[:]))
	}
	r16 := s.ToRadix16()
	c.op("scalar.ToRadix16", "%s -> %s", hs, c06i8(r16[:]))
	for w := uint(6); w <= 8; w++ {
		d := s.ToRadix2w(w)
		c.op(fmt.Sprintf("scalar.ToRadix2w(%d)", w), "%s -> %s hint=%d", hs, c06i8(d[:]), scalar.ToRadix2wSizeHint(w))
	}
	bits := s.Bits()
	c.op("scalar.Bits", "%s -> %s", hs, core.Hex8(bits[:]))
	// a second operand with a tape-chosen width only
	s2 := c.sc()
	w := uint(2 + t.W(7))
	naf := s2.NonAdjacentForm(w)
	c.op(fmt.Sprintf("scalar.NonAdjacentForm(%d)", w), "%s -> %s", c06hs(s2), c06i8(naf[:]))
}
