package work

import (
	"bytes"
	"crypto/sha512"
	"fmt"

	"github.com/oasisprotocol/curve25519-voi/curve"
	"github.com/oasisprotocol/curve25519-voi/curve/scalar"
	"github.com/oasisprotocol/curve25519-voi/primitives/ed25519"
	"github.com/oasisprotocol/curve25519-voi/primitives/ed25519/extra/ecvrf"

	"verifsim/core"
	"verifsim/model"
	"verifsim/simio"
)

// C15: ECVRF completeness, uniqueness and exactness.  An honest prover uses all
// four prove entry points (the hedged ones over a fault-injecting entropy
// reader); every tuple (pk, pi, alpha) that reaches a verifier - honest, altered
// in transit, or produced by a Byzantine prover that knows its key - is decided
// by the library and by the RFC 9381 model, and the decisions, outputs and the
// rejection rules of the property statement are compared.

var (
	c15opProve     = core.RegCounter("c15.op.prove")
	c15opProveV10  = core.RegCounter("c15.op.prove_v10")
	c15opHedged    = core.RegCounter("c15.op.prove_with_added_randomness")
	c15opHedgedV10 = core.RegCounter("c15.op.prove_with_added_randomness_v10")
	c15opVerify    = core.RegCounter("c15.op.verify")
	c15opVerifyV10 = core.RegCounter("c15.op.verify_v10")
	c15opP2H       = core.RegCounter("c15.op.proof_to_hash")

	c15modelProve  = core.RegCounter("c15.model.deterministic_proofs_compared_bytewise")
	c15modelVerify = core.RegCounter("c15.model.verify_decisions_compared")
	c15modelP2H    = core.RegCounter("c15.model.proof_to_hash_compared")
	c15accepted    = core.RegCounter("c15.tuples_accepted")
	c15rejected    = core.RegCounter("c15.tuples_rejected")
	c15betaCmp     = core.RegCounter("c15.uniqueness.outputs_compared_with_the_first_output")

	c15entErr      = core.RegCounter("c15.hedged.entropy_error_hit")
	c15entErrAt0   = core.RegCounter("c15.hedged.entropy_error_before_first_byte")
	c15hedgedOK    = core.RegCounter("c15.hedged.proofs_made")
	c15hedgedRep   = core.RegCounter("c15.hedged.equal_entropy_replayed_with_other_chunking")
	c15hedgedFlip  = core.RegCounter("c15.hedged.one_entropy_bit_flipped")
	c15crossFormat = core.RegCounter("c15.cross_format_attempts")

	c15craftAcc  = core.RegCounter("c15.crafted.torsion_shifted_gamma_accepted")
	c15craftRej  = core.RegCounter("c15.crafted.torsion_shifted_gamma_rejected")
	c15craftOrd1 = core.RegCounter("c15.crafted.torsion_order_1_random_nonce_honest")
	c15craftOrd2 = core.RegCounter("c15.crafted.torsion_order_2")
	c15craftOrd4 = core.RegCounter("c15.crafted.torsion_order_4")
	c15craftOrd8 = core.RegCounter("c15.crafted.torsion_order_8")

	c15altered   = core.RegCounter("c15.altered_tuples_evaluated")
	c15kat       = core.RegCounter("c15.rfc9381_known_answer_runs")
	c15panicSkip = core.RegCounter("c15.verifier_panics")
	c15companion = core.RegCounter("c15.other_provers_tuple_read_into_the_receive_buffer_first")
	c15rxReuse   = core.RegCounter("c15.deliveries_through_one_reused_receive_buffer")
	c15bigAlpha  = core.RegCounter("c15.runs_with_input_strings_around_2^16_bytes")
)

// Fault kinds of the corrupting wire, in a fixed order (counters are registered
// in this order; the map is only ever used for lookup).
var c15faultNames = []string{
	"bit-flip-gamma", "bit-flip-c", "bit-flip-s", "bit-flip-pk", "bit-flip-alpha",
	"truncate-pi", "truncate-pk", "truncate-alpha",
	"extend-pi", "extend-pk", "extend-alpha",
	"s-plus-L",
	"pk-small-order", "pk-small-order-with-matching-forgery",
	"pk-non-canonical", "pk-non-canonical-with-matching-forgery",
	"gamma-non-canonical",
	"other-key", "proof-of-other-key", "other-alpha", "proof-of-other-alpha",
	"fields-zero-filled", "fields-ff-filled",
}

var c15faultCtr = func() map[string]int {
	m := make(map[string]int, len(c15faultNames))
	for _, n := range c15faultNames {
		m[n] = core.RegCounter("c15.fault." + n)
	}
	return m
}()

// Torsion choice of the Byzantine prover: biased to the order-2 point (accepted
// with probability 1/2); 0 is the identity, i.e. an honest proof with a nonce of
// the prover's own choosing.  Index 0 (the simplest draw) is the order-2 point.
var c15torsionPick = []int{4, 4, 4, 2, 6, 1, 3, 5, 7, 0}

// c15TorsionOrder(i) is the order of curve.EIGHT_TORSION[i], computed, not assumed
// (lazily: package initialisers never call into the library under test).
var c15torsionOrderMemo [8]int

func c15TorsionOrder(i int) int {
	if c15torsionOrderMemo[0] == 0 {
		for i, T := range curve.EIGHT_TORSION {
			var acc curve.EdwardsPoint
			acc.Identity()
			for m := 1; m <= 8; m++ {
				acc.Add(&acc, T)
				if acc.IsIdentity() {
					c15torsionOrderMemo[i] = m
					break
				}
			}
			if c15torsionOrderMemo[i] == 0 {
				c15torsionOrderMemo[i] = 9 // broken group law on this tree: not this check's business
			}
		}
	}
	return c15torsionOrderMemo[i]
}

var c15entropyCfg = simio.EntropyCfg{Chunking: true, Degenerate: true, Errors: true, ErrWindow: 40}

func init() {
	Register(&Workload{
		Name:     "C15",
		Property: "C15",
		Phase:    "honest and Byzantine provers, corrupting wire, verifiers of both challenge formats",
		Variants: []string{"plain"},
		Rule: "per run: one tape-drawn Ed25519 key and alpha (lengths biased to SHA-512 block seams); Prove and Prove_v10 are compared bytewise with the RFC 9381 model, verified under the matching format, and must be rejected under the other format; " +
			"ProveWithAddedRandomness(_v10) run over a fault-injecting entropy reader (short/single-byte/zero-length reads, degenerate content, error or EOF at an offset below 40): a reader failure inside the 32 bytes must give (nil, error), otherwise exactly 32 bytes are consumed, the proof verifies with the same output as Prove, differs from the deterministic proof, is reproduced bytewise when the same 32 bytes are replayed under another chunking, and changes when one entropy bit is flipped; " +
			"1..3 (thorough 1..6) tuples are altered in transit (one bit of Gamma/c/s/pk/alpha, truncation or extension of pi/pk/alpha, s+m*L, small-order public key from the 8-torsion list with the honest proof or with a forgery that satisfies both verification equations for that key, non-canonical public key, non-canonical Gamma, another key or input, a proof made for another key or input) and must give (false, nil); " +
			"0..2 (thorough 0..4) proofs come from a Byzantine prover that knows its scalar x and emits Gamma' = x*H + T (T from the 8-torsion list) with a consistently recomputed challenge and s: accepted iff c*T is the identity, and every accepted proof must give the output of the honest proof; " +
			"every Verify decision and output, and every ProofToHash decision and output, is compared with the RFC 9381 model on every delivered tuple; " +
			"non-trivial = at least one altered tuple or Byzantine proof was evaluated; distinct = distinct event-log digests",
		Real: []string{"ecvrf.Prove / Prove_v10 / ProveWithAddedRandomness / ProveWithAddedRandomness_v10", "ecvrf.Verify / Verify_v10 / ProofToHash", "primitives/h2c (encode_to_curve)", "curve, curve/scalar"},
		Stub: []string{"entropy reader (simio.Entropy: short reads, errors, degenerate content; simio.FixedEntropy for replays)", "the wire between prover and verifier (tape-chosen alteration of pk / pi / alpha)", "a Byzantine prover that knows its own secret scalar"},
		Init: func(e *Env) error { c15ModelErr = model.SelfTestECVRF(); return nil },
		Run:  runC15,
	})
}

type c15Proof struct {
	pi   []byte
	v10  bool
	name string
}

type c15Run struct {
	r         *core.Run
	t         *core.Tape
	g         *Gen
	sk        ed25519.PrivateKey
	pk, alpha []byte
	beta      []byte // output of the first accepted proof for (pk, alpha): the honest Prove
	evaluated int    // altered or Byzantine tuples that were evaluated
	// outputs exactly as returned (not copied) next to a private copy taken at once: callers keep
	// outputs; a later call must not change one that was handed out earlier
	kept [][2][]byte
	// a verifier's receive buffer: with useRx every delivered (key, proof, input) is copied into the SAME
	// backing array before the call, as a server reading requests into one buffer does; what an earlier
	// request left there (and whatever the library remembered about it) must not show in a later decision
	useRx bool
	rx    []byte
}

func (c *c15Run) keep(b []byte) {
	if b != nil {
		c.kept = append(c.kept, [2][]byte{b, clone(b)})
	}
}

func (c *c15Run) checkKept() {
	for _, k := range c.kept {
		if !bytes.Equal(k[0], k[1]) && len(c.r.Main.Fails()) == 0 {
			c.r.Fail("exactness", "returned-output-changed-later", "an output returned by Verify / ProofToHash (%x) was changed by a later call (now %x): returned values share memory with library state", k[1], k[0])
			return
		}
	}
}

// c15companion is an honest (key, input, proofs in both formats) of another prover, made once per worker.
var c15comp *struct {
	pk, alpha []byte
	pi        [2][]byte
}

func c15GetCompanion() *struct {
	pk, alpha []byte
	pi        [2][]byte
} {
	if c15comp == nil {
		seed := sha512.Sum512_256([]byte("c15 companion"))
		k := ed25519.NewKeyFromSeed(seed[:])
		a := []byte("another prover on the same connection")
		c15comp = &struct {
			pk, alpha []byte
			pi        [2][]byte
		}{clone(k[32:]), a, [2][]byte{ecvrf.Prove(k, a), ecvrf.Prove_v10(k, a)}}
	}
	return c15comp
}

func c15fmtName(v10 bool) string {
	if v10 {
		return "Verify_v10"
	}
	return "Verify"
}

func c15firstDiff(a, b []byte) string {
	if len(a) != len(b) {
		return "length"
	}
	for i := range a {
		if a[i] != b[i] {
			switch {
			case i < 32:
				return "Gamma"
			case i < 48:
				return "c"
			default:
				return "s"
			}
		}
	}
	return "none"
}

// deliver hands one tuple to the library's verifier of the given format and
// checks what must hold for ANY tuple: the decision equals the model's, an
// accepted tuple returns the output of ProofToHash and of the model, a rejected
// one returns nil, ProofToHash decides and computes like the model, and every
// accepted proof for the run's (pk, alpha) gives the run's one output.
// evaluated is false when the library panicked (left to C19).
func (c *c15Run) deliver(label string, v10 bool, pk, pi, alpha []byte) (accepted, evaluated bool) {
	r := c.r
	if c.useRx {
		need := len(pk) + len(pi) + len(alpha)
		if cap(c.rx) < need {
			c.rx = make([]byte, need+64)
		}
		place := func(off int, b []byte) []byte {
			if b == nil {
				return nil
			}
			return c.rx[off : off+copy(c.rx[off:], b)]
		}
		if c.t.W(3) == 0 {
			// the buffer's previous request: another prover's honest tuple
			cp := c15GetCompanion()
			cpi := cp.pi[b2i(v10)]
			need2 := len(cp.pk) + len(cpi) + len(cp.alpha)
			if cap(c.rx) < need2 {
				c.rx = make([]byte, need2+need+64)
			}
			var cok bool
			cpan, _ := Guard(func() {
				a, b, d := place(0, cp.pk), place(len(cp.pk), cpi), place(len(cp.pk)+len(cpi), cp.alpha)
				if v10 {
					cok, _ = ecvrf.Verify_v10(a, b, d)
				} else {
					cok, _ = ecvrf.Verify(a, b, d)
				}
			})
			r.Count(c15companion)
			if (cpan || !cok) && len(r.Main.Fails()) == 0 {
				r.Fail("completeness", "other-prover-rejected", "before %s: another prover's honest tuple, read into the verifier's receive buffer after earlier requests, was rejected by %s", label, c15fmtName(v10))
			}
		}
		pk, pi, alpha = place(0, pk), place(len(pk), pi), place(len(pk)+len(pi), alpha)
		r.Count(c15rxReuse)
	}
	var ok bool
	var beta []byte
	pan, pmsg := Guard(func() {
		if v10 {
			ok, beta = ecvrf.Verify_v10(pk, pi, alpha)
		} else {
			ok, beta = ecvrf.Verify(pk, pi, alpha)
		}
	})
	r.AddSteps(1)
	if v10 {
		r.Count(c15opVerifyV10)
	} else {
		r.Count(c15opVerify)
	}
	if pan {
		// "fails to verify" means (false, nil): the verifiers document no panic for any (key, proof, input)
		r.Count(c15panicSkip)
		r.Fail("rejection", "verifier-panicked", "%s: %s(pk=%x, pi=%x, alpha of %d bytes) panicked instead of answering: %s", label, c15fmtName(v10), pk, pi, len(alpha), pmsg)
		return false, false
	}
	c.keep(beta)
	mok, mbeta, why := model.ECVRFVerify(pk, pi, alpha, v10)
	r.Count(c15modelVerify)
	r.Ev("%s: %s(pk=%s pi=%s alpha=%s) -> %v %s; model %v %s", label, c15fmtName(v10), core.Hex8(pk), core.Hex8(pi), core.Hex8(alpha), ok, core.Hex8(beta), mok, why)
	if ok != mok {
		r.Fail("model-decision", label, "%s(pk=%x, pi=%x, alpha=%x) = %v, RFC 9381 model = %v (%s)", c15fmtName(v10), pk, pi, alpha, ok, mok, why)
	}

	// ProofToHash on the same proof string
	var hb []byte
	var herr error
	hpan, _ := Guard(func() { hb, herr = ecvrf.ProofToHash(pi) })
	r.AddSteps(1)
	r.Count(c15opP2H)
	if hpan {
		r.Count(c15panicSkip)
		r.Fail("rejection", "proof-to-hash-panicked", "%s: ProofToHash(%x) panicked instead of returning an error", label, pi)
	} else {
		c.keep(hb)
		mhb, mwhy := model.ECVRFProofToHash(pi)
		r.Count(c15modelP2H)
		switch {
		case (herr == nil) != (mwhy == ""):
			r.Fail("exactness", "proof-to-hash-decision", "%s: ProofToHash(%x) error = %v, RFC 9381 model: %q", label, pi, herr, mwhy)
		case herr == nil && !bytes.Equal(hb, mhb):
			r.Fail("exactness", "proof-to-hash-output", "%s: ProofToHash(%x) = %x, RFC 9381 model = %x", label, pi, hb, mhb)
		case herr != nil && hb != nil:
			r.Fail("exactness", "proof-to-hash-output-with-error", "%s: ProofToHash(%x) returned an error together with %d output bytes", label, pi, len(hb))
		}
	}

	if !ok {
		r.Count(c15rejected)
		if beta != nil {
			r.Fail("rejection", "output-returned-with-invalid", "%s: %s returned false together with %d output bytes", label, c15fmtName(v10), len(beta))
		}
		return false, true
	}
	r.Count(c15accepted)
	if mok && !bytes.Equal(beta, mbeta) {
		r.Fail("exactness", "verify-output-vs-model", "%s: %s output %x, RFC 9381 model %x (pi=%x)", label, c15fmtName(v10), beta, mbeta, pi)
	}
	if !hpan && (herr != nil || !bytes.Equal(hb, beta)) {
		r.Fail("exactness", "verify-output-vs-proof-to-hash", "%s: %s output %x, ProofToHash(pi) = %x (err %v)", label, c15fmtName(v10), beta, hb, herr)
	}
	if bytes.Equal(pk, c.pk) && bytes.Equal(alpha, c.alpha) {
		if c.beta == nil {
			c.beta = clone(beta)
		} else {
			r.Count(c15betaCmp)
			if !bytes.Equal(beta, c.beta) {
				r.Fail("uniqueness", label, "two proofs verify for pk=%x alpha=%x but give different outputs: %x (first accepted proof) and %x (pi=%x)", pk, alpha, c.beta, beta, pi)
			}
		}
	}
	return true, true
}

// c15ModelErr is set by Init when the RFC 9381 model does not reproduce the RFC's vectors.
// The model delegates encode_to_curve and point arithmetic to the library, so this happens
// exactly when those layers no longer compute what the RFC defines on this build; the
// workload then decides with the library's own answers to the RFC vectors.
var c15ModelErr error

// c15KnownAnswers checks the library directly against RFC 9381 Appendix B.3 (examples
// 16-18): proof, verification and output.  Returns true if the run should stop.
func c15KnownAnswers(r *core.Run) bool {
	if c15ModelErr == nil && r.Index%97 != 0 {
		return false
	}
	r.Count(c15kat)
	bad := ""
	for i, v := range model.ECVRFVectors() {
		priv := ed25519.NewKeyFromSeed(v.SK)
		var pi, beta []byte
		var ok bool
		pan, _ := Guard(func() {
			pi = ecvrf.Prove(priv, v.Alpha)
			ok, beta = ecvrf.Verify(ed25519.PublicKey(priv[32:]), v.Pi, v.Alpha)
		})
		if pan || !bytes.Equal(priv[32:], v.PK) || !bytes.Equal(pi, v.Pi) || !ok || !bytes.Equal(beta, v.Beta) {
			bad = fmt.Sprintf("RFC 9381 example %d: Prove equals the RFC proof: %v, Verify accepts the RFC proof: %v, output equals the RFC output: %v", 16+i, bytes.Equal(pi, v.Pi), ok, bytes.Equal(beta, v.Beta))
			break
		}
	}
	if bad != "" {
		r.Fail("exactness", "rfc9381-known-answer", "%s", bad)
		return true
	}
	if c15ModelErr != nil {
		panic("harness: the RFC 9381 model fails its vectors (" + c15ModelErr.Error() + ") although the library reproduces them: the model is broken")
	}
	return false
}

func runC15(e *Env, r *core.Run) {
	t := r.T
	c := &c15Run{r: r, t: t, g: &Gen{T: t}}
	// The private key and the input string live in ONE allocation ("key | gap | input | guard"), so
	// both slices have spare capacity, as a key read from a file or cut out of a packet has.  A prover
	// that appends to its arguments overwrites the input that follows the key (later verification
	// against the caller's input then fails: completeness) and in any case changes the buffer.
	c.useRx = t.W(2) == 1
	alpha0 := c.g.Msg()
	if t.W(24) == 0 {
		// input strings around 2^16: ECVRF hashes pk || alpha, h2c frames lengths in 16 bits elsewhere
		alpha0 = c.g.Bytes([]int{65471, 65472, 65503, 65504, 65535, 65536, 70000, 131072}[t.W(8)])
		r.Count(c15bigAlpha)
	}
	pg := NewPackedGuarded(c.g.EdKey(), alpha0)
	c.sk = ed25519.PrivateKey(pg.Part(0))
	c.pk = clone(c.sk[32:])
	c.alpha = pg.Part(1)
	defer c.checkKept()
	defer func() {
		if !pg.Intact() && len(r.Main.Fails()) == 0 {
			r.Fail("caller-memory", "caller-buffer-modified", "the buffer holding the caller's private key and input string (key | gap | input | guard) was modified by the ECVRF entry points")
		}
	}()
	if c15KnownAnswers(r) {
		return
	}
	r.Ev("key pk=%s alpha=%s (%d bytes)", core.Hex8(c.pk), core.Hex8(c.alpha), len(c.alpha))
	failed := func() bool { return len(r.Main.Fails()) > 0 }

	// ---- 1. deterministic proofs in both formats: exactness and completeness ----
	var det [2][]byte
	var proofs []c15Proof
	for f := 0; f < 2; f++ {
		v10 := f == 1
		name := []string{"prove", "prove_v10"}[f]
		var pi []byte
		pan, pmsg := Guard(func() {
			if v10 {
				pi = ecvrf.Prove_v10(c.sk, c.alpha)
			} else {
				pi = ecvrf.Prove(c.sk, c.alpha)
			}
		})
		r.AddSteps(1)
		r.Count([]int{c15opProve, c15opProveV10}[f])
		if pan {
			r.Fail("completeness", name+"-panicked", "%s panicked on a well-formed private key: %s", name, pmsg)
			return
		}
		mpi, _, err := model.ECVRFProve(c.sk[:32], c.alpha, v10)
		if err != nil {
			panic("harness: model prove failed: " + err.Error())
		}
		r.Count(c15modelProve)
		r.Ev("%s -> %s; model %s", name, core.Hex8(pi), core.Hex8(mpi))
		if !bytes.Equal(pi, mpi) {
			r.Fail("exactness", name, "%s(seed=%x, alpha=%x) = %x, RFC 9381 model = %x (first difference in %s)", name, []byte(c.sk[:32]), c.alpha, pi, mpi, c15firstDiff(pi, mpi))
		}
		if acc, ev := c.deliver(name, v10, c.pk, pi, c.alpha); ev && !acc {
			r.Fail("completeness", name, "the proof of %s does not verify under the matching key, input and format (pi=%x)", name, pi)
		}
		if failed() {
			return
		}
		det[f] = pi
		proofs = append(proofs, c15Proof{pi, v10, name})
	}

	// ---- 2. hedged proofs over the fault-injecting entropy reader ----------------
	mask := 1 + t.W(3) // bit 0: current format, bit 1: v10
	for f := 0; f < 2 && !failed(); f++ {
		if mask&(1<<uint(f)) == 0 {
			continue
		}
		v10 := f == 1
		name := []string{"prove_with_added_randomness", "prove_with_added_randomness_v10"}[f]
		hedged := func(rd *simio.Entropy) (pi []byte, pan bool, err error) {
			pan, _ = Guard(func() {
				if v10 {
					pi, err = ecvrf.ProveWithAddedRandomness_v10(rd, c.sk, c.alpha)
				} else {
					pi, err = ecvrf.ProveWithAddedRandomness(rd, c.sk, c.alpha)
				}
			})
			r.AddSteps(1)
			r.Count([]int{c15opHedged, c15opHedgedV10}[f])
			return
		}
		ent := simio.NewEntropy(r, c15entropyCfg)
		pi, pan, err := hedged(ent)
		if pan {
			r.Fail("completeness", name+"-panicked", "%s panicked on a well-formed private key and a non-nil reader", name)
			break
		}
		if ent.WillFail(32) {
			r.Count(c15entErr)
			if len(ent.Delivered) == 0 {
				r.Count(c15entErrAt0)
			}
			r.Ev("%s(reader failing after %d bytes) -> proof=%s err=%v", name, len(ent.Delivered), core.Hex8(pi), err != nil)
			if err == nil || pi != nil {
				r.Fail("fault-rule", name+"-succeeded-on-reader-error", "%s returned (proof of %d bytes, err=%v) although the entropy reader failed after %d bytes", name, len(pi), err, len(ent.Delivered))
			}
			continue
		}
		if err != nil {
			r.Fail("fault-rule", name+"-failed-without-reader-error", "%s failed (%v) although the reader delivered 32 bytes without error", name, err)
			continue
		}
		if len(ent.Delivered) != 32 {
			r.Fail("fault-rule", name+"-consumed-wrong-amount", "%s consumed %d entropy bytes, the added randomness is 32 bytes", name, len(ent.Delivered))
			continue
		}
		r.Count(c15hedgedOK)
		r.Ev("%s(Z=%s in %d reads) -> %s", name, core.Hex8(ent.Delivered), ent.Reads, core.Hex8(pi))
		if acc, ev := c.deliver(name, v10, c.pk, pi, c.alpha); ev && !acc {
			r.Fail("completeness", name, "the proof of %s (Z=%x) does not verify under the matching key, input and format (pi=%x)", name, ent.Delivered, pi)
		}
		if bytes.Equal(pi, det[f]) {
			r.Fail("hedging", name+"-equals-deterministic", "%s with Z=%x returned the deterministic proof: the added randomness has no effect", name, ent.Delivered)
		}
		if failed() {
			break
		}
		proofs = append(proofs, c15Proof{pi, v10, name})
		// equal entropy, other chunking => equal proof
		rep := simio.FixedEntropy(r, ent.Delivered, -1, 0)
		rep.SetChunk(1 + t.W(32))
		pi2, pan2, err2 := hedged(rep)
		r.Count(c15hedgedRep)
		if pan2 || err2 != nil || !bytes.Equal(pi2, pi) {
			r.Fail("hedging", name+"-equal-entropy-different-proof", "%s with the same 32 entropy bytes %x gave %x, then %x (err %v)", name, ent.Delivered, pi, pi2, err2)
		} else if len(rep.Delivered) != 32 {
			r.Fail("fault-rule", name+"-consumed-wrong-amount", "%s consumed %d entropy bytes on replay, the added randomness is 32 bytes", name, len(rep.Delivered))
		}
		// one entropy bit flipped => another proof, still complete, same output
		if t.W(2) == 1 && !failed() {
			z := clone(ent.Delivered)
			z[t.W(32)] ^= 1 << uint(t.W(8))
			pi3, pan3, err3 := hedged(simio.FixedEntropy(r, z, -1, 0))
			r.Count(c15hedgedFlip)
			r.Ev("%s(Z'=%s) -> %s", name, core.Hex8(z), core.Hex8(pi3))
			if pan3 || err3 != nil {
				r.Fail("fault-rule", name+"-failed-without-reader-error", "%s failed (%v) on a reader that delivers 32 bytes", name, err3)
			} else {
				if bytes.Equal(pi3, pi) {
					r.Fail("hedging", name+"-different-entropy-equal-proof", "%s gave the same proof for Z=%x and Z'=%x", name, ent.Delivered, z)
				}
				if acc, ev := c.deliver(name, v10, c.pk, pi3, c.alpha); ev && !acc {
					r.Fail("completeness", name, "the proof of %s (Z=%x) does not verify under the matching key, input and format (pi=%x)", name, z, pi3)
				}
			}
		}
	}
	if failed() {
		return
	}

	// ---- 3. the two challenge formats never cross-verify ------------------------
	for i, p := range proofs {
		if i >= 2 && t.W(2) == 0 { // the deterministic pair always, hedged proofs on a coin
			continue
		}
		r.Count(c15crossFormat)
		if acc, _ := c.deliver("cross-format:"+p.name, !p.v10, c.pk, p.pi, c.alpha); acc {
			r.Fail("cross-format", p.name, "the proof of %s verifies under %s (pi=%x)", p.name, c15fmtName(!p.v10), p.pi)
		}
	}
	if failed() {
		return
	}

	// ---- 4. the corrupting wire -------------------------------------------------
	nAlt, maxCraft := 1+t.W(3), 3
	if e.Thorough() {
		nAlt, maxCraft = 1+t.W(6), 5
	}
	for i := 0; i < nAlt && !failed(); i++ {
		c.alter(proofs[t.W(len(proofs))])
	}

	// ---- 5. the Byzantine prover ------------------------------------------------
	nCraft := t.W(maxCraft)
	for i := 0; i < nCraft && !failed(); i++ {
		c.byzantine(t.W(2) == 1)
	}
	r.Nontrivial = c.evaluated > 0
}

// forge builds the proof that satisfies both verification equations for a
// small-order "public key": with x = 0 the prover needs U = s*B - c*Y = k*B and
// V = s*H - c*Gamma = k*H, i.e. s = k and c*Y = c*Gamma = identity, which holds
// for Y = Gamma = identity always and for other torsion points whenever their
// order divides c.  Only ECVRF_validate_key stands between this proof and
// acceptance.  The key bytes are hashed exactly as delivered.
func (c *c15Run) forge(pk, gammaString, alpha []byte, v10 bool) []byte {
	H := model.ECVRFEncodeToCurveLib(pk, alpha)
	k := c.g.Scalar()
	var U, V curve.EdwardsPoint
	U.MulBasepoint(curve.ED25519_BASEPOINT_TABLE, k)
	V.Mul(H, k)
	cs := model.ECVRFChallenge(v10, pk, edBytes(H), gammaString, edBytes(&U), edBytes(&V))
	sb := make([]byte, 32)
	if err := k.ToBytes(sb); err != nil {
		panic(err)
	}
	return append(append(clone(gammaString), cs...), sb...)
}

// alter delivers one tuple derived from an honest proof by a tape-chosen fault.
// Whatever the fault, the verifier must answer (false, nil).
func (c *c15Run) alter(base c15Proof) {
	t, r := c.t, c.r
	pk, pi, alpha := clone(c.pk), clone(base.pi), append([]byte{}, c.alpha...)
	v10 := base.v10
	var name string
	flip := func(b []byte, bit int) { b[bit/8] ^= 1 << uint(bit%8) }
	extendAlpha := func() {
		alpha = append(alpha, t.Bytes(core.SW, 1+t.W(16))...)
		name = "extend-alpha"
	}
	switch t.W(14) {
	case 13: // a torn or lost write: whole fields of the proof read back as zeros (or as erased flash, 0xff)
		mask := 1 + t.W(7) // any non-empty subset of {Gamma, c, s}
		fill, nm := byte(0), "fields-zero-filled"
		if t.W(4) == 3 {
			fill, nm = 0xff, "fields-ff-filled"
		}
		for f, rg := range [][2]int{{0, 32}, {32, 48}, {48, 80}} {
			if mask&(1<<uint(f)) != 0 {
				for j := rg[0]; j < rg[1]; j++ {
					pi[j] = fill
				}
			}
		}
		if bytes.Equal(pi, base.pi) {
			return
		}
		name = nm
	case 0, 1: // one bit of the proof (Gamma 256, c 128, s 256 bits)
		bit := t.W(640)
		flip(pi, bit)
		switch {
		case bit < 256:
			name = "bit-flip-gamma"
		case bit < 384:
			name = "bit-flip-c"
		default:
			name = "bit-flip-s"
		}
	case 2:
		flip(pk, t.W(256))
		name = "bit-flip-pk"
	case 3:
		if len(alpha) == 0 {
			extendAlpha()
		} else {
			flip(alpha, t.W(8*len(alpha)))
			name = "bit-flip-alpha"
		}
	case 4:
		switch t.W(3) {
		case 0:
			pi = pi[:t.W(len(pi))]
			name = "truncate-pi"
		case 1:
			pk = pk[:t.W(len(pk))]
			name = "truncate-pk"
		default:
			if len(alpha) == 0 {
				extendAlpha()
			} else {
				alpha = alpha[:t.W(len(alpha))]
				name = "truncate-alpha"
			}
		}
	case 5:
		ext := t.Bytes(core.SW, 1+t.W(16))
		switch t.W(3) {
		case 0:
			pi = append(pi, ext...)
			name = "extend-pi"
		case 1:
			pk = append(pk, ext...)
			name = "extend-pk"
		default:
			alpha = append(alpha, ext...)
			name = "extend-alpha"
		}
	case 6: // s + m*L, as long as it fits 256 bits (m = 1 always fits)
		m := 1 + t.W(15)
		for j := 0; j < m; j++ {
			s := clone(pi[48:])
			if !addL(s) {
				break
			}
			copy(pi[48:], s)
		}
		if bytes.Equal(pi, base.pi) {
			return // cannot happen: s < L implies s + L < 2^256
		}
		name = "s-plus-L"
	case 7: // small-order public key, honest proof
		pk = edBytes(curve.EIGHT_TORSION[t.W(8)])
		name = "pk-small-order"
	case 8: // small-order public key with the forgery that fits it
		pk = edBytes(curve.EIGHT_TORSION[t.W(8)])
		gi := 0
		if t.W(2) == 1 {
			gi = t.W(8)
		}
		pi = c.forge(pk, edBytes(curve.EIGHT_TORSION[gi]), alpha, v10)
		name = "pk-small-order-with-matching-forgery"
	case 9: // non-canonical public key; where its point has small order, optionally with the fitting forgery
		pk = clone(ncPoints()[t.W(len(ncPoints()))])
		name = "pk-non-canonical"
		if t.W(2) == 1 {
			var cy curve.CompressedEdwardsY
			var P curve.EdwardsPoint
			if _, err := cy.SetBytes(pk); err == nil {
				if _, err = P.SetCompressedY(&cy); err == nil && P.IsSmallOrder() {
					pi = c.forge(pk, edBytes(curve.EIGHT_TORSION[0]), alpha, v10)
					name = "pk-non-canonical-with-matching-forgery"
				}
			}
		}
	case 10:
		copy(pi[:32], ncPoints()[t.W(len(ncPoints()))])
		name = "gamma-non-canonical"
	case 11: // another key
		seed := c.g.Bytes(32)
		sk2 := ed25519.NewKeyFromSeed(seed)
		if bytes.Equal(sk2[32:], c.pk) { // an exhausted tape draws the same seed again
			seed[0] ^= 1
			sk2 = ed25519.NewKeyFromSeed(seed)
		}
		if t.W(2) == 0 {
			pk = clone(sk2[32:])
			name = "other-key"
		} else {
			if v10 {
				pi = ecvrf.Prove_v10(sk2, alpha)
			} else {
				pi = ecvrf.Prove(sk2, alpha)
			}
			name = "proof-of-other-key"
		}
	default: // another input
		alpha2 := c.g.Msg()
		if bytes.Equal(alpha2, c.alpha) {
			alpha2 = append(alpha2, 1)
		}
		if t.W(2) == 0 {
			alpha = alpha2
			name = "other-alpha"
		} else {
			if v10 {
				pi = ecvrf.Prove_v10(c.sk, alpha2)
			} else {
				pi = ecvrf.Prove(c.sk, alpha2)
			}
			name = "proof-of-other-alpha"
		}
	}
	r.Ev("wire: %s applied to the tuple of %s", name, base.name)
	acc, ev := c.deliver(name, v10, pk, pi, alpha)
	if !ev {
		return
	}
	c.evaluated++
	r.Count(c15altered)
	r.Count(c15faultCtr[name])
	if acc {
		r.Fail("rejection", name, "%s accepts after '%s' on the tuple of %s: pk=%x pi=%x alpha=%x (honest: pk=%x pi=%x alpha=%x)", c15fmtName(v10), name, base.name, pk, pi, alpha, c.pk, base.pi, c.alpha)
	}
}

// byzantine: the prover knows x and emits Gamma' = x*H + T with a challenge and
// s recomputed consistently for a nonce of its choosing.  U' = s*B - c*Y = k*B
// always; V' = s*H - c*Gamma' = k*H - c*T, so the proof verifies iff c*T is the
// identity, i.e. iff ord(T) divides c.  An accepted proof carries a Gamma that
// differs from the honest one, and must still give the honest output.
func (c *c15Run) byzantine(v10 bool) {
	t, r := c.t, c.r
	ti := c15torsionPick[t.W(len(c15torsionPick))]
	ord := c15TorsionOrder(ti)
	x := edSecretScalar(c.sk)
	H := model.ECVRFEncodeToCurveLib(c.pk, c.alpha)
	var gamma, U, V curve.EdwardsPoint
	gamma.Mul(H, x)
	gamma.Add(&gamma, curve.EIGHT_TORSION[ti])
	k := c.g.Scalar()
	U.MulBasepoint(curve.ED25519_BASEPOINT_TABLE, k)
	V.Mul(H, k)
	gs := edBytes(&gamma)
	cs := model.ECVRFChallenge(v10, c.pk, edBytes(H), gs, edBytes(&U), edBytes(&V))
	var cb [32]byte
	copy(cb[:], cs)
	cc, err := scalar.NewFromCanonicalBytes(cb[:])
	if err != nil {
		panic(err)
	}
	s := scalar.New().Mul(cc, x)
	s.Add(s, k)
	sb := make([]byte, 32)
	if err := s.ToBytes(sb); err != nil {
		panic(err)
	}
	pi := append(append(clone(gs), cs...), sb...)
	predicted := int(cs[0])%ord == 0 // c is little-endian and ord divides 256
	r.Ev("byzantine prover: Gamma' = x*H + T[%d] (order %d), c mod %d = %d", ti, ord, ord, int(cs[0])%ord)
	acc, ev := c.deliver("torsion-shifted-gamma", v10, c.pk, pi, c.alpha)
	if !ev {
		return
	}
	c.evaluated++
	r.Count([]int{0: 0, 1: c15craftOrd1, 2: c15craftOrd2, 4: c15craftOrd4, 8: c15craftOrd8}[ord])
	if acc {
		r.Count(c15craftAcc)
	} else {
		r.Count(c15craftRej)
	}
	if acc != predicted {
		r.Fail("model-decision", "torsion-shifted-gamma-algebra", "%s = %v on Gamma' = x*H + T[%d] with c mod %d = %d; the verification equations hold iff that residue is 0 (pk=%x pi=%x alpha=%x)", c15fmtName(v10), acc, ti, ord, int(cs[0])%ord, c.pk, pi, c.alpha)
	}
}
