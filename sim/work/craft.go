package work

import (
	"crypto/sha512"
	"math/big"
	"os"

	"github.com/oasisprotocol/curve25519-voi/curve"
	"github.com/oasisprotocol/curve25519-voi/curve/scalar"
	"github.com/oasisprotocol/curve25519-voi/primitives/ed25519"
)

// The Byzantine signer: it knows its own secret keys and emits the edge-case
// entries that make differently-batching validators split if batch, expanded or
// cached verification ever disagrees with single verification.

var fieldP = func() *big.Int {
	p := new(big.Int).Lsh(big.NewInt(1), 255)
	return p.Sub(p, big.NewInt(19))
}()

// ColdStart reports whether this worker process was started for the cold-start
// phase (C18D): package initialisers of the harness then make no library call.
func ColdStart() bool { return os.Getenv("VERIF_COLD") != "" }

func leBytes32(x *big.Int) []byte {
	b := x.Bytes()
	out := make([]byte, 32)
	for i := range b {
		out[i] = b[len(b)-1-i]
	}
	return out
}

// ncPoints lists every decodable 32-byte encoding that is not the
// canonical encoding of its point: y >= p (y = p..p+18) with either sign, and
// the x = 0 points with the sign bit set.
var ncMemo [][]byte

func ncPoints() [][]byte {
	if ncMemo != nil {
		return ncMemo
	}
	var out [][]byte
	try := func(b []byte) {
		var c curve.CompressedEdwardsY
		if _, err := c.SetBytes(b); err != nil {
			return
		}
		var p curve.EdwardsPoint
		if _, err := p.SetCompressedY(&c); err != nil {
			return
		}
		if c.IsCanonicalVartime() {
			return
		}
		out = append(out, b)
	}
	for y := int64(0); y <= 18; y++ {
		for _, sign := range []byte{0, 0x80} {
			b := leBytes32(new(big.Int).Add(fieldP, big.NewInt(y)))
			b[31] |= sign
			try(b)
		}
	}
	for _, y := range []*big.Int{big.NewInt(1), new(big.Int).Sub(fieldP, big.NewInt(1))} {
		b := leBytes32(y)
		b[31] |= 0x80
		try(b)
	}
	if len(out) == 0 {
		out = [][]byte{make([]byte, 32)} // decoding is broken on this tree; keep the generators total
	}
	ncMemo = out
	return out
}

func makeDom2(ph bool, ctx string) []byte {
	if !ph && ctx == "" {
		return nil
	}
	b := []byte("SigEd25519 no Ed25519 collisions")
	f := byte(0)
	if ph {
		f = 1
	}
	b = append(b, f, byte(len(ctx)))
	return append(b, ctx...)
}

func hramScalar(dom2, R, A, msg []byte) *scalar.Scalar {
	h := sha512.New()
	h.Write(dom2)
	h.Write(R)
	h.Write(A)
	h.Write(msg)
	k, err := scalar.NewFromBytesModOrderWide(h.Sum(nil))
	if err != nil {
		panic(err)
	}
	return k
}

// craftSig signs msg under the key with secret seed `seed`, with torsion point
// tA added to the public key, tR added to R (0 = none) and delta added to S.
// The result satisfies the cofactored equation iff delta == 0.
func craftSig(g *Gen, seed []byte, tA, tR int, delta int64, dom2, msg []byte) (pk, sig []byte) {
	a := edSecretScalar(ed25519.NewKeyFromSeed(seed))
	var A curve.EdwardsPoint
	A.MulBasepoint(curve.ED25519_BASEPOINT_TABLE, a)
	if tA > 0 {
		A.Add(&A, curve.EIGHT_TORSION[tA])
	}
	nonce := g.Scalar()
	var R curve.EdwardsPoint
	R.MulBasepoint(curve.ED25519_BASEPOINT_TABLE, nonce)
	if tR > 0 {
		R.Add(&R, curve.EIGHT_TORSION[tR])
	}
	pk, Rb := edBytes(&A), edBytes(&R)
	k := hramScalar(dom2, Rb, pk, msg)
	S := scalar.New().Mul(k, a)
	S.Add(S, nonce)
	if delta != 0 {
		d := scalar.NewFromUint64(uint64(abs64(delta)))
		if delta > 0 {
			S.Add(S, d)
		} else {
			S.Sub(S, d)
		}
	}
	sb := make([]byte, 32)
	if err := S.ToBytes(sb); err != nil {
		panic(err)
	}
	return pk, append(Rb, sb...)
}

func abs64(x int64) int64 {
	if x < 0 {
		return -x
	}
	return x
}
