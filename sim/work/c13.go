package work

import (
	"bytes"
	"fmt"
	"io"

	"github.com/oasisprotocol/curve25519-voi/primitives/merlin"

	"verifsim/core"
	"verifsim/model"
	"verifsim/simio"
)

// C13: Merlin/STROBE conformance over operation histories on a pool of live
// objects, mirrored step by step by an independent model.

var (
	c13ops       = core.RegCounter("c13.ops")
	c13new       = core.RegCounter("c13.op.new_transcript")
	c13append    = core.RegCounter("c13.op.append")
	c13extract   = core.RegCounter("c13.op.extract")
	c13clone     = core.RegCounter("c13.op.clone")
	c13build     = core.RegCounter("c13.op.build_rng")
	c13rekey     = core.RegCounter("c13.op.rekey")
	c13finalize  = core.RegCounter("c13.op.finalize")
	c13finErr    = core.RegCounter("c13.finalize_with_injected_reader_error")
	c13finRetry  = core.RegCounter("c13.finalize_retried_after_error")
	c13read      = core.RegCounter("c13.op.rng_read")
	c13readSplit = core.RegCounter("c13.rng_read_chunked_twin")
	c13boundary  = core.RegCounter("c13.lengths_within_2_of_rate_multiple")
	c13cloneDiv  = core.RegCounter("c13.clone_then_origin_mutated")
	c13sibling   = core.RegCounter("c13.sibling_histories_compared")
	c13bytes     = core.RegCounter("c13.bytes_compared")
	c13big       = core.RegCounter("c13.ops_longer_than_two_blocks")
	c13huge      = core.RegCounter("c13.lengths_around_65536")
)

var c13lens = []int{0, 1, 2, 3, 31, 32, 64, 100, 156, 157, 158, 159, 160, 161, 162, 163, 164, 165, 166, 167, 168, 169, 170, 200, 326, 327, 328, 329, 330, 331, 332, 333, 334, 500, 1024}

func c13len(r *core.Run, thorough bool) int {
	t := r.T
	var n int
	switch t.W(4) {
	case 0:
		n = t.W(40)
	case 1:
		n = t.W(700)
		if thorough && t.W(8) == 0 {
			n = t.W(5000)
		}
		if t.W(200) == 199 {
			n = 65530 + t.W(12) // lengths around 2^16: a length prefix narrower than 32 bits shows here
			r.Count(c13huge)
		}
	default:
		n = c13lens[t.W(len(c13lens))]
	}
	if m := n % 166; n > 100 && (m <= 2 || m >= 164) {
		r.Count(c13boundary)
	}
	if n > 332 {
		r.Count(c13big)
	}
	return n
}

// c13dest returns an n-byte destination pre-filled with garbage; two times out of three it is
// the front of a larger allocation (a slice with spare capacity, as buf[:n] of an array is).
func c13dest(r *core.Run, n int) (dest, spare []byte) {
	t := r.T
	extra := 0
	if t.W(3) != 0 {
		extra = 1 + t.W(48)
	}
	buf := t.Bytes(core.SW, n+extra)
	return buf[:n], append([]byte(nil), buf[n:]...)
}

func c13spareIntact(dest, spare []byte) bool {
	return bytes.Equal(dest[len(dest):len(dest)+len(spare)], spare)
}

type c13T struct {
	it *merlin.Transcript
	mt *model.MTranscript
	id int
}

type c13B struct { // builder, not yet finalized
	ib *merlin.TranscriptRngBuilder
	mr *model.MRng
	id int
}

type c13R struct {
	ir io.Reader
	mr *model.MRng
	id int
}

func init() {
	Register(&Workload{
		Name:     "C13",
		Property: "C13",
		Phase:    "operation histories over live transcripts, clones, RNG builders and RNGs",
		Variants: []string{"plain", "purego"},
		Rule: "per run: a tape-generated history of 1..40 (thorough 1..200) operations {NewTranscript, AppendMessage, ExtractBytes, Clone, BuildRng, RekeyWithWitnessBytes, Finalize(entropy reader with short reads / injected errors), Read} over a pool of up to 8 transcripts, 4 builders and 4 RNGs; lengths biased to 0, 1 and +-4 around multiples of the STROBE rate (166); " +
			"every produced byte is compared with an independent Keccak-f/STROBE-128/Merlin model that forks on Clone/BuildRng; caller buffers must be unchanged; Finalize under a reader error must fail and leave the builder usable; then a sibling history differing by one edit (byte moved between label and message, append split in two, two appends swapped, length or label changed) must give a different 32-byte challenge and a replay of the identical history identical bytes; " +
			"non-trivial = the history contains at least one extract or RNG read whose output was compared and at least 3 operations; distinct = distinct event-log digests",
		Real: []string{"primitives/merlin", "internal/strobe (incl. Keccak-f[1600]: assembly on the default build, Go on purego)"},
		Stub: []string{"entropy reader (simio.Entropy)"},
		Init: func(e *Env) error { return model.SelfTestMerlin() },
		Run:  runC13,
	})
}

func runC13(e *Env, r *core.Run) {
	t := r.T
	maxOps := 40
	if e.Thorough() {
		maxOps = 200
	}
	nops := 1 + t.W(maxOps)
	var ts []c13T
	var bs []c13B
	var rs []c13R
	nextID := 0
	compared := 0
	label := func() string {
		switch t.W(6) {
		case 0:
			return ""
		case 1:
			return string(t.Bytes(core.SW, c13len(r, false)%200))
		default:
			return string(t.Bytes(core.SW, 1+t.W(12)))
		}
	}
	newT := func() {
		l := label()
		ts = append(ts, c13T{merlin.NewTranscript(l), model.MNew(l), nextID})
		r.Ev("T%d = NewTranscript(%s)", nextID, core.Hex8([]byte(l)))
		nextID++
		r.Count(c13new)
	}
	newT()
	fail := func(key, format string, args ...interface{}) { r.Fail("model-divergence", key, format, args...) }
	for op := 0; op < nops && len(r.Main.Fails()) == 0; op++ {
		r.Count(c13ops)
		r.AddSteps(1)
		k := t.W(12)
		switch {
		case k == 0 && len(ts) < 8:
			newT()
		case k <= 3:
			p := ts[t.W(len(ts))]
			l, msg := label(), t.Bytes(core.SW, c13len(r, e.Thorough()))
			keep := append([]byte(nil), msg...)
			p.it.AppendMessage(l, msg)
			p.mt.Append(l, keep)
			r.Ev("T%d.Append(%s, %s)", p.id, core.Hex8([]byte(l)), core.Hex8(keep))
			r.Count(c13append)
			if !bytes.Equal(msg, keep) {
				r.Fail("caller-buffer", "append-message-modified", "AppendMessage modified the caller's message buffer")
			}
			c13scribble(msg) // the caller's buffer is the caller's again: what was absorbed must not depend on it any more
		case k <= 5:
			p := ts[t.W(len(ts))]
			l, n := label(), c13len(r, e.Thorough())
			dest, spare := c13dest(r, n) // garbage pre-fill, often with spare capacity behind it
			p.it.ExtractBytes(dest, l)
			if !c13spareIntact(dest, spare) {
				r.Fail("caller-buffer", "extract-wrote-behind-destination", "ExtractBytes wrote behind the %d bytes it was given (the destination's spare capacity)", n)
			}
			want := p.mt.Challenge(l, n)
			r.Ev("T%d.Extract(%s, %d) -> %s", p.id, core.Hex8([]byte(l)), n, core.Hex8(dest))
			r.Count(c13extract)
			r.CountN(c13bytes, int64(n))
			compared++
			if !bytes.Equal(dest, want) {
				fail("extract", "T%d.ExtractBytes(n=%d) = %s, Merlin model gives %s", p.id, n, core.Hex8(dest), core.Hex8(want))
			}
			c13scribble(dest)
		case k == 6 && len(ts) < 8:
			p := ts[t.W(len(ts))]
			ts = append(ts, c13T{p.it.Clone(), p.mt.Clone(), nextID})
			r.Ev("T%d = T%d.Clone()", nextID, p.id)
			nextID++
			r.Count(c13clone)
			if t.W(2) == 0 {
				// mutate the origin right away: an aliased clone diverges at its next output
				msg := t.Bytes(core.SW, 1+t.W(8))
				p.it.AppendMessage("after-clone", msg)
				p.mt.Append("after-clone", msg)
				r.Ev("T%d.Append(after-clone, %s)", p.id, core.Hex8(msg))
				r.Count(c13cloneDiv)
			}
		case k == 7 && len(bs) < 4:
			p := ts[t.W(len(ts))]
			bs = append(bs, c13B{p.it.BuildRng(), p.mt.BuildRng(), nextID})
			r.Ev("B%d = T%d.BuildRng()", nextID, p.id)
			nextID++
			r.Count(c13build)
		case k == 8 && len(bs) > 0:
			b := bs[t.W(len(bs))]
			l, w := label(), t.Bytes(core.SW, c13len(r, e.Thorough()))
			keep := append([]byte(nil), w...)
			b.ib.RekeyWithWitnessBytes(l, w)
			b.mr.Rekey(l, keep)
			r.Ev("B%d.Rekey(%s, %s)", b.id, core.Hex8([]byte(l)), core.Hex8(keep))
			r.Count(c13rekey)
			if !bytes.Equal(w, keep) {
				r.Fail("caller-buffer", "witness-modified", "RekeyWithWitnessBytes modified the caller's witness buffer")
			}
			c13scribble(w)
		case k == 9 && len(bs) > 0 && len(rs) < 4:
			bi := t.W(len(bs))
			b := bs[bi]
			ent := simio.NewEntropy(r, simio.EntropyCfg{Chunking: true, Degenerate: true, Errors: true, ErrWindow: 40})
			ir, err := b.ib.Finalize(ent)
			r.Count(c13finalize)
			if ent.WillFail(32) {
				r.Count(c13finErr)
				r.Ev("B%d.Finalize(reader failing at %d) -> err=%v", b.id, len(ent.Delivered), err != nil)
				if err == nil || ir != nil {
					r.Fail("fault-rule", "finalize-succeeded-on-reader-error", "Finalize returned a usable RNG although the entropy reader failed after %d bytes", len(ent.Delivered))
					break
				}
				// the builder must still be usable and unchanged: retry with a good reader
				if t.W(2) == 0 {
					break
				}
				r.Count(c13finRetry)
				ent = simio.NewEntropy(r, simio.EntropyCfg{Chunking: true})
				ir, err = b.ib.Finalize(ent)
			}
			if err != nil {
				r.Fail("fault-rule", "finalize-failed-without-error", "Finalize failed (%v) although the reader delivered 32 bytes", err)
				break
			}
			if len(ent.Delivered) != 32 {
				r.Fail("fault-rule", "finalize-consumed-wrong-amount", "Finalize consumed %d entropy bytes, Merlin uses 32", len(ent.Delivered))
				break
			}
			b.mr.Finalize(ent.Delivered[:32])
			rs = append(rs, c13R{ir, b.mr, b.id})
			bs = append(bs[:bi], bs[bi+1:]...)
			r.Ev("R%d = B%d.Finalize(%s)", b.id, b.id, core.Hex8(ent.Delivered))
		case k >= 10 && len(rs) > 0:
			p := rs[t.W(len(rs))]
			n := c13len(r, e.Thorough())
			dest, spare := c13dest(r, n)
			m, err := p.ir.Read(dest)
			if !c13spareIntact(dest, spare) {
				r.Fail("caller-buffer", "read-wrote-behind-destination", "the transcript RNG wrote behind the %d bytes it was given (the destination's spare capacity)", n)
			}
			want := p.mr.Read(n)
			r.Ev("R%d.Read(%d) -> %s", p.id, n, core.Hex8(dest))
			r.Count(c13read)
			r.CountN(c13bytes, int64(n))
			compared++
			if err != nil || m != n {
				fail("rng-read", "R%d.Read(%d) returned (%d, %v)", p.id, n, m, err)
			} else if !bytes.Equal(dest, want) {
				fail("rng-read", "R%d.Read(%d) = %s, Merlin model gives %s", p.id, n, core.Hex8(dest), core.Hex8(want))
			}
		}
	}
	r.Nontrivial = compared >= 1 && nops >= 3
	if len(r.Main.Fails()) > 0 {
		return
	}
	// every live transcript must still agree with its model (aliasing shows up here)
	for _, p := range ts {
		a := make([]byte, 32)
		p.it.ExtractBytes(a, "final")
		if w := p.mt.Challenge("final", 32); !bytes.Equal(a, w) {
			fail("final-extract", "T%d final challenge %s, model %s", p.id, core.Hex8(a), core.Hex8(w))
			return
		}
	}
	c13Siblings(r)
	c13ReadChunks(r)
}

// ---- sibling histories: any single edit changes the challenge -------------------

type c13Step struct {
	label string
	msg   []byte
}

func c13Challenge(app string, h []c13Step, n int, lbl string) []byte {
	t := merlin.NewTranscript(app)
	for _, s := range h {
		t.AppendMessage(s.label, s.msg)
	}
	out := make([]byte, n)
	t.ExtractBytes(out, lbl)
	return out
}

func c13Siblings(r *core.Run) {
	t := r.T
	n := 1 + t.W(4)
	var h []c13Step
	for i := 0; i < n; i++ {
		h = append(h, c13Step{string(t.Bytes(core.SW, 1+t.W(10))), t.Bytes(core.SW, 1+c13len(r, false)%400)})
	}
	app := string(t.Bytes(core.SW, t.W(8)))
	base := c13Challenge(app, h, 32, "c")
	again := c13Challenge(app, h, 32, "c")
	if !bytes.Equal(base, again) {
		r.Fail("determinism", "identical-histories-differ", "two transcripts with the identical history produced different challenges")
		return
	}
	mt := model.MNew(app)
	for _, s := range h {
		mt.Append(s.label, s.msg)
	}
	if w := mt.Challenge("c", 32); !bytes.Equal(base, w) {
		r.Fail("model-divergence", "sibling-base", "linear history challenge %s, model %s", core.Hex8(base), core.Hex8(w))
		return
	}
	cp := func() []c13Step {
		o := make([]c13Step, len(h))
		for i := range h {
			o[i] = c13Step{h[i].label, append([]byte(nil), h[i].msg...)}
		}
		return o
	}
	i := t.W(len(h))
	var sib []byte
	var what string
	switch t.W(6) {
	case 0: // move the last label byte to the front of the message
		s := cp()
		l := s[i].label
		s[i].msg = append([]byte{l[len(l)-1]}, s[i].msg...)
		s[i].label = l[:len(l)-1]
		sib, what = c13Challenge(app, s, 32, "c"), "byte moved from label to message"
	case 1: // split one append in two with the same label
		s := cp()
		cut := t.W(len(s[i].msg) + 1)
		a, b := s[i].msg[:cut], s[i].msg[cut:]
		ns := append(append(append([]c13Step{}, s[:i]...), c13Step{s[i].label, a}, c13Step{s[i].label, b}), s[i+1:]...)
		sib, what = c13Challenge(app, ns, 32, "c"), "one append split in two"
	case 2: // swap two adjacent appends
		s := cp()
		if len(s) < 2 {
			s = append(s, c13Step{"x", []byte("y")})
			base = c13Challenge(app, s, 32, "c")
		}
		j := t.W(len(s) - 1)
		if s[j].label == s[j+1].label && bytes.Equal(s[j].msg, s[j+1].msg) {
			return
		}
		s2 := append([]c13Step{}, s...)
		s2[j], s2[j+1] = s2[j+1], s2[j]
		sib, what = c13Challenge(app, s2, 32, "c"), "two appends swapped"
	case 3: // different requested length: the first 32 bytes must differ
		sib, what = c13Challenge(app, h, 33+t.W(200), "c")[:32], "challenge length changed"
	case 4: // label of the challenge changed
		sib, what = c13Challenge(app, h, 32, "d"), "challenge label changed"
	default: // one message bit flipped
		s := cp()
		s[i].msg[t.W(len(s[i].msg))] ^= 1 << uint(t.W(8))
		sib, what = c13Challenge(app, s, 32, "c"), "one message bit flipped"
	}
	r.Count(c13sibling)
	r.Ev("sibling(%s) base=%s sibling=%s", what, core.Hex8(base), core.Hex8(sib))
	if bytes.Equal(base, sib) {
		r.Fail("separation", "sibling-histories-collide", "two histories differing by '%s' produced the same challenge %x", what, base)
	}
}

// c13ReadChunks: the RNG's output depends on the read sizes (each Read frames its
// length), so two RNGs with identical state read with identical chunkings agree,
// and both agree with the model under an arbitrary chunking.
func c13ReadChunks(r *core.Run) {
	t := r.T
	if t.W(3) != 0 {
		return
	}
	r.Count(c13readSplit)
	tr := merlin.NewTranscript("chunks")
	mt := model.MNew("chunks")
	w := t.Bytes(core.SW, 32)
	ent := t.Bytes(core.SW, 32)
	mk := func() io.Reader {
		rd, err := tr.BuildRng().RekeyWithWitnessBytes("w", append([]byte(nil), w...)).Finalize(simio.FixedEntropy(r, ent, -1, 0))
		if err != nil {
			panic(fmt.Sprint("fixed entropy failed: ", err))
		}
		return rd
	}
	a, b := mk(), mk()
	mr := mt.BuildRng()
	mr.Rekey("w", w)
	mr.Finalize(ent)
	for i := 0; i < 1+t.W(5); i++ {
		n := c13len(r, false) % 400
		x, y := make([]byte, n), make([]byte, n)
		a.Read(x)
		b.Read(y)
		want := mr.Read(n)
		if !bytes.Equal(x, y) {
			r.Fail("determinism", "identical-rngs-differ", "two RNGs built from identical transcript, witness and entropy disagree on a %d-byte read", n)
			return
		}
		if !bytes.Equal(x, want) {
			r.Fail("model-divergence", "rng-read-twin", "RNG read of %d bytes = %s, model %s", n, core.Hex8(x), core.Hex8(want))
			return
		}
	}
}

// c13scribble overwrites a buffer the caller owns after the library call it was passed to has returned.
func c13scribble(b []byte) {
	for i := range b {
		b[i] ^= 0xa5
	}
}
