package work

import (
	"github.com/oasisprotocol/curve25519-voi/curve"
	"github.com/oasisprotocol/curve25519-voi/curve/scalar"
	"github.com/oasisprotocol/curve25519-voi/primitives/ed25519"
	"github.com/oasisprotocol/curve25519-voi/primitives/sr25519"
	"github.com/oasisprotocol/curve25519-voi/primitives/x25519"

	"verifsim/core"
)

// Input lengths: every byte-consuming entry point of the backend-dependent layer,
// fed strings around its nominal length.  "Identical accept/reject decisions and
// errors" covers the length checks too, and each backend has its own copy of some
// of them (scalar_u32.go / scalar_u64.go, the field element decoders).

var c06fLen = core.RegCounter("c06.family.input_lengths")

func (c *c06) famLengths() {
	t := c.t
	lenAround := func(n int) int {
		switch t.W(8) {
		case 0:
			return 0
		case 1:
			return n - 1
		case 2:
			return n + 1
		case 3:
			return 2 * n
		case 4:
			return n + 1 + t.W(3*n)
		case 5:
			return t.W(n)
		default:
			return n
		}
	}
	errs := func(err error) string {
		if err == nil {
			return "nil"
		}
		return err.Error()
	}
	// each call under its own guard: a panic on one backend only is a divergence like any other
	try := func(kind string, n int, f func(b []byte) string) {
		l := lenAround(n)
		b := c.g.Bytes(l)
		if l >= 32 && t.W(2) == 0 {
			b[31] &= 0x0f // make canonical scalar / field decodings likely
		}
		orig := clone(b)
		var res string
		pan, _ := Guard(func() { res = f(b) })
		if pan {
			res = "panic"
		}
		c.op(kind, "len=%d %s -> %s intact=%v", l, core.Hex8(orig), res, string(orig) == string(b))
	}
	try("len.scalar.SetBytesModOrder", 32, func(b []byte) string {
		s, err := scalar.NewFromBytesModOrder(b)
		if err != nil {
			return errs(err)
		}
		return c06hs(s)
	})
	try("len.scalar.SetBytesModOrderWide", 64, func(b []byte) string {
		s, err := scalar.NewFromBytesModOrderWide(b)
		if err != nil {
			return errs(err)
		}
		return c06hs(s)
	})
	try("len.scalar.SetCanonicalBytes", 32, func(b []byte) string {
		s, err := scalar.NewFromCanonicalBytes(b)
		if err != nil {
			return errs(err)
		}
		return c06hs(s)
	})
	try("len.scalar.SetBits", 32, func(b []byte) string {
		s, err := scalar.NewFromBits(b)
		if err != nil {
			return errs(err)
		}
		return c06hs(s)
	})
	try("len.scalar.UnmarshalBinary", 32, func(b []byte) string {
		var s scalar.Scalar
		if err := s.UnmarshalBinary(b); err != nil {
			return errs(err)
		}
		return c06hs(&s)
	})
	try("len.scalar.ToBytes", 32, func(b []byte) string {
		// b is the OUTPUT buffer here
		if err := c.sc().ToBytes(b); err != nil {
			return errs(err)
		}
		return core.Hex8(b)
	})
	try("len.scalar.ScMinimalVartime", 32, func(b []byte) string {
		if scalar.ScMinimalVartime(b) {
			return "true"
		}
		return "false"
	})
	try("len.edwards.CompressedEdwardsY.SetBytes", 32, func(b []byte) string {
		var cy curve.CompressedEdwardsY
		if _, err := cy.SetBytes(b); err != nil {
			return errs(err)
		}
		return core.Hex8(cy[:])
	})
	try("len.edwards.CompressedEdwardsY.UnmarshalBinary", 32, func(b []byte) string {
		var cy curve.CompressedEdwardsY
		if err := cy.UnmarshalBinary(b); err != nil {
			return errs(err)
		}
		return core.Hex8(cy[:])
	})
	try("len.edwards.UnmarshalBinary", 32, func(b []byte) string {
		var p curve.EdwardsPoint
		if err := p.UnmarshalBinary(b); err != nil {
			return errs(err)
		}
		return c06he(&p)
	})
	try("len.ristretto.CompressedRistretto.SetBytes", 32, func(b []byte) string {
		var cr curve.CompressedRistretto
		if _, err := cr.SetBytes(b); err != nil {
			return errs(err)
		}
		return core.Hex8(cr[:])
	})
	try("len.ristretto.UnmarshalBinary", 32, func(b []byte) string {
		var p curve.RistrettoPoint
		if err := p.UnmarshalBinary(b); err != nil {
			return errs(err)
		}
		return c06hr(&p)
	})
	try("len.ristretto.SetUniformBytes", 64, func(b []byte) string {
		var p curve.RistrettoPoint
		if _, err := p.SetUniformBytes(b); err != nil {
			return errs(err)
		}
		return c06hr(&p)
	})
	try("len.montgomery.SetBytes", 32, func(b []byte) string {
		var p curve.MontgomeryPoint
		if _, err := p.SetBytes(b); err != nil {
			return errs(err)
		}
		return core.Hex8(p[:])
	})
	try("len.x25519.X25519(scalar)", 32, func(b []byte) string {
		o, err := x25519.X25519(b, x25519.Basepoint)
		if err != nil {
			return errs(err)
		}
		return core.Hex8(o)
	})
	// the remaining constructors of the exported API
	{
		u := uint64(t.W(1<<30))<<34 | uint64(t.W(1<<30))
		c.op("scalar.SetUint64", "%d -> %s vs NewFromUint64 %s", u, c06hs(scalar.New().SetUint64(u)), c06hs(scalar.NewFromUint64(u)))
		p, rp := c.ed(), c.ris()
		cy, cr, mp := curve.NewCompressedEdwardsY(), curve.NewCompressedRistretto(), curve.NewMontgomeryPoint()
		c.op("curve.New*(zero values)", "-> %s %s %s", core.Hex8(cy[:]), core.Hex8(cr[:]), core.Hex8(mp[:]))
		cy.SetEdwardsPoint(p)
		cr.SetRistrettoPoint(rp)
		mp.SetEdwards(p)
		c.op("curve.New*(set)", "%s %s -> %s %s %s", c06he(p), c06hr(rp), core.Hex8(cy[:]), core.Hex8(cr[:]), core.Hex8(mp[:]))
		xk, err := x25519.GeneratePrivateKey(c.rd())
		if err != nil {
			c.op("x25519.GeneratePrivateKey", "-> err")
		} else {
			c.op("x25519.GeneratePrivateKey", "-> %s public %s", core.Hex8(xk[:]), core.Hex8(xk.Public()[:]))
		}
	}
	// Equal on keys: same value, a copy, another key, a foreign type, nil
	{
		k1, k2 := c.g.EdKey(), c.g.EdKey()
		k1c := ed25519.PrivateKey(clone(k1))
		var foreign struct{ x int }
		c.op("ed25519.PrivateKey.Equal", "-> %v %v %v %v %v", k1.Equal(k1), k1.Equal(k1c), k1.Equal(k2), k1.Equal(foreign), k1.Equal(nil))
		p1, p2 := ed25519.PublicKey(k1[32:]), ed25519.PublicKey(k2[32:])
		c.op("ed25519.PublicKey.Equal", "-> %v %v %v %v %v %v", p1.Equal(p1), p1.Equal(ed25519.PublicKey(clone(p1))), p1.Equal(p2), p1.Equal(foreign), p1.Equal(nil), p1.Equal(k1.Public()))
		m1, e1 := sr25519.NewMiniSecretKeyFromBytes(c.g.Bytes(32))
		m2, e2 := sr25519.NewMiniSecretKeyFromBytes(c.g.Bytes(32))
		if e1 == nil && e2 == nil {
			b1, _ := m1.MarshalBinary()
			m1c, _ := sr25519.NewMiniSecretKeyFromBytes(b1)
			c.op("sr25519.MiniSecretKey.Equal", "-> %v %v %v", m1.Equal(m1), m1.Equal(m1c), m1.Equal(m2))
			s1, s2 := m1.ExpandUniform(), m2.ExpandEd25519()
			sb, _ := s1.MarshalBinary()
			s1c, _ := sr25519.NewSecretKeyFromBytes(sb)
			// same scalar, other nonce: not equal
			nb := clone(sb)
			nb[40] ^= 1
			s1n, _ := sr25519.NewSecretKeyFromBytes(nb)
			c.op("sr25519.SecretKey.Equal", "-> %v %v %v %v %v", s1.Equal(s1), s1c != nil && s1.Equal(s1c), s1.Equal(s2), s1n != nil && s1.Equal(s1n), s1.Equal(m1.ExpandEd25519()))
			c.op("sr25519.PublicKey.Equal", "-> %v %v", s1.PublicKey().Equal(s1c.PublicKey()), s1.PublicKey().Equal(s2.PublicKey()))
		}
	}
	try("len.x25519.X25519(point)", 32, func(b []byte) string {
		k := c.g.Bytes(32)
		o, err := x25519.X25519(k, b)
		if err != nil {
			return errs(err)
		}
		return core.Hex8(o)
	})
}
