package work

import (
	"bytes"
	"crypto"
	"crypto/sha512"
	"fmt"

	"golang.org/x/crypto/sha3"

	"github.com/oasisprotocol/curve25519-voi/curve"
	"github.com/oasisprotocol/curve25519-voi/curve/scalar"
	"github.com/oasisprotocol/curve25519-voi/primitives/ed25519"
	"github.com/oasisprotocol/curve25519-voi/primitives/ed25519/extra/cache"
	"github.com/oasisprotocol/curve25519-voi/primitives/ed25519/extra/ecvrf"
	"github.com/oasisprotocol/curve25519-voi/primitives/h2c"
	"github.com/oasisprotocol/curve25519-voi/primitives/merlin"
	"github.com/oasisprotocol/curve25519-voi/primitives/sr25519"
	"github.com/oasisprotocol/curve25519-voi/primitives/x25519"

	"verifsim/core"
	"verifsim/rt"
)

// C18 phase D: cold start.  The driver starts ONE PROCESS PER RUN and the workload
// makes no library call before the tasks are spawned, so the very first use of
// every package-level object (tables, lazily built state, anything written on
// first use) happens inside concurrently scheduled tasks.  A package that
// initialises shared state on first use without synchronisation is reported by
// the race detector here; in phase C the main goroutine has usually touched
// everything first, which orders those writes before every task.

const dNumOps = 12

var dOpNames = [dNumOps]string{"ed25519 derive+sign+verify", "ed25519 expanded+batch", "x25519 base+dh", "ristretto basepoint table", "edwards multiscalar",
	"h2c xmd+xof", "ecvrf prove+verify", "sr25519 keygen+sign+verify", "merlin transcript", "cache verifier (shared)", "scalar recodings", "edwards user table+expanded"}

func dSeed(i int) []byte {
	d := sha512.Sum512_256([]byte{'d', byte(i), byte(i >> 8)})
	return d[:]
}

// dOp is self-contained: it derives all of its inputs itself.
func dOp(kind, i int, cv *cache.Verifier) []byte {
	switch kind {
	case 0:
		priv := ed25519.NewKeyFromSeed(dSeed(i))
		msg := []byte(fmt.Sprint("cold-", i))
		sig := ed25519.Sign(priv, msg)
		ok := ed25519.Verify(ed25519.PublicKey(priv[32:]), msg, sig)
		return append(sig, bb(ok))
	case 1:
		priv := ed25519.NewKeyFromSeed(dSeed(i))
		msg := []byte("batch")
		sig := ed25519.Sign(priv, msg)
		ex, err := ed25519.NewExpandedPublicKey(ed25519.PublicKey(priv[32:]))
		if err != nil {
			return []byte("expand error")
		}
		v := ed25519.NewBatchVerifier()
		v.AddExpanded(ex, msg, sig)
		v.Add(ed25519.PublicKey(priv[32:]), msg, sig)
		ok, res := v.Verify(NewDetReader(uint64(i)))
		return []byte{bb(ok), bb(len(res) == 2 && res[0] && res[1]), bb(ed25519.VerifyExpandedWithOptions(ex, msg, sig, &ed25519.Options{Verify: ed25519.VerifyOptionsZIP_215}))}
	case 2:
		a, err := x25519.X25519(dSeed(i), x25519.Basepoint)
		if err != nil {
			return []byte("x25519 error")
		}
		b, err := x25519.X25519(dSeed(i+1), a)
		if err != nil {
			return []byte("x25519 error")
		}
		return append(a, b...)
	case 3:
		var p curve.RistrettoPoint
		p.MulBasepoint(curve.RISTRETTO_BASEPOINT_TABLE, scal(i))
		return risBytes(&p)
	case 4:
		ss := []*scalar.Scalar{scal(i), scal(i + 1), scal(i + 2)}
		ps := []*curve.EdwardsPoint{curve.ED25519_BASEPOINT_POINT, curve.EIGHT_TORSION[1+i%7], curve.ED25519_BASEPOINT_POINT}
		var p, q, t curve.EdwardsPoint
		p.MultiscalarMulVartime(ss, ps)
		q.MultiscalarMul(ss, ps)
		t.TripleScalarMulBasepointVartime(ss[0], ps[1], ss[1], &p)
		return append(append(edBytes(&p), edBytes(&q)...), edBytes(&t)...)
	case 5:
		p, err := h2c.Edwards25519_XMD_ELL2_RO(crypto.SHA512, []byte("cold"), dSeed(i))
		if err != nil {
			return []byte("h2c error")
		}
		q, err := h2c.Ristretto255_XOF_R255MAP_RO(sha3.NewShake128(), []byte("cold"), dSeed(i))
		if err != nil {
			return []byte("h2c error")
		}
		return append(edBytes(p), risBytes(q)...)
	case 6:
		priv := ed25519.NewKeyFromSeed(dSeed(i))
		pi := ecvrf.Prove(priv, []byte("alpha"))
		ok, beta := ecvrf.Verify(ed25519.PublicKey(priv[32:]), pi, []byte("alpha"))
		return append(append(pi, beta...), bb(ok))
	case 7:
		kp, err := sr25519.GenerateKeyPair(NewDetReader(uint64(i)))
		if err != nil {
			return []byte("sr keygen error")
		}
		sc := sr25519.NewSigningContext([]byte("cold"))
		sig, err := kp.Sign(NewDetReader(uint64(i)+1), sc.NewTranscriptBytes([]byte("m")))
		if err != nil {
			return []byte("sr sign error")
		}
		b, _ := sig.MarshalBinary()
		return append(b, bb(kp.PublicKey().Verify(sc.NewTranscriptBytes([]byte("m")), sig)))
	case 8:
		t := merlin.NewTranscript("cold")
		t.AppendMessage("a", dSeed(i))
		out := make([]byte, 200)
		t.ExtractBytes(out, "c")
		return out
	case 9:
		priv := ed25519.NewKeyFromSeed(dSeed(i % 3))
		msg := []byte("cached")
		sig := ed25519.Sign(priv, msg)
		return []byte{bb(cv.Verify(ed25519.PublicKey(priv[32:]), msg, sig))}
	case 10:
		s := scal(i)
		naf := s.NonAdjacentForm(5)
		r16 := s.ToRadix16()
		var out []byte
		for _, d := range naf {
			out = append(out, byte(d))
		}
		for _, d := range r16 {
			out = append(out, byte(d))
		}
		var inv scalar.Scalar
		inv.Invert(s)
		b, _ := inv.MarshalBinary()
		return append(out, b...)
	default:
		var P curve.EdwardsPoint
		P.MulBasepoint(curve.ED25519_BASEPOINT_TABLE, scal(i))
		tbl := curve.NewEdwardsBasepointTable(&P)
		ep := curve.NewExpandedEdwardsPoint(&P)
		var a, b curve.EdwardsPoint
		a.MulBasepoint(tbl, scal(i+1))
		b.ExpandedDoubleScalarMulBasepointVartime(scal(i+2), ep, scal(i+3))
		return append(edBytes(&a), edBytes(&b)...)
	}
}

var (
	cD_ops  = core.RegCounter("c18d.ops")
	cD_runs = core.RegCounter("c18d.cold_processes")
	cD_warm = core.RegCounter("c18d.runs_in_an_already_warm_process")
	cD_kind [dNumOps]int
	dWarm   bool
)

func init() {
	for i := range cD_kind {
		cD_kind[i] = core.RegCounter("c18d.op." + dOpNames[i])
	}
	Register(&Workload{
		Name:     "C18D",
		Property: "C18",
		Phase:    "D: cold start - first use of every package happens inside concurrent tasks",
		Variants: []string{"instr-race"},
		Rule: "one OS process per run (the driver starts them); the workload makes no library call before spawning 3..6 tasks x 2..4 self-contained operations (each derives its own inputs) over 12 operation kinds, biased so that several tasks start with the same kind; -race build with raw-syscall token hand-off; oracle: zero race reports, and each result equals the same call repeated sequentially after the join; " +
			"non-trivial = the process was cold (first run in it) and at least two context switches happened; distinct = distinct event-log digests",
		Real: []string{"package initialisation and first-use paths of ed25519, cache, ecvrf, x25519, sr25519, merlin, h2c, curve, scalar", "Go race detector"},
		Stub: []string{"goroutine scheduler (rt, raw pipe hand-off)", "entropy: deterministic readers"},
		Run:  runC18D,
	})
	// The same cold start as a differential instrument for C06: whatever a backend builds on first use
	// (the vector backend generates its tables at start-up) is first used by concurrently scheduled tasks.
	// Nothing schedule-dependent is logged; a deviation from the sequential results counts only if it is
	// backend-specific.
	Register(&Workload{
		Name:     "C06D",
		Property: "C06",
		Phase:    "cold start: the first calls of the process are made by concurrent tasks, replayed on the vector and the portable backend",
		Variants: []string{"instrc", "instrc-purego"},
		Rule: "the scenario of C18 phase D (one OS process per run, no library call before 3..6 tasks x 2..4 self-contained operations are spawned), on the deep overlay (statement yields inside primitives/** and curve/*.go, dense preemption-point scheduling) of the default build and of -tags purego; only schedule-independent data is logged (the results of the same calls repeated alone after the join); oracle: equal per-index digests across the two builds, and a concurrent result or panic that deviates from the sequential one on one build only; " +
			"non-trivial = the process was cold and at least two context switches happened; distinct = distinct event-log digests",
		Real: []string{"package initialisation and first-use paths of ed25519, cache, ecvrf, x25519, sr25519, merlin, h2c, curve, scalar on both backends"},
		Stub: []string{"goroutine scheduler (rt, raw pipe hand-off)", "entropy: deterministic readers"},
		Run:  runC18D,
	})
}

func runC18D(e *Env, r *core.Run) {
	t := r.T
	quiet := r.Property == "C06" // differential registration: log nothing schedule-dependent
	cold := !dWarm
	dWarm = true
	if cold {
		r.Count(cD_runs)
	} else {
		r.Count(cD_warm)
	}
	ntasks := 3 + t.W(4)
	first := t.W(dNumOps)
	scripts := make([][]cOp, ntasks)
	total := 0
	for i := range scripts {
		n := 2 + t.W(3)
		for j := 0; j < n; j++ {
			o := cOp{t.W(dNumOps), t.W(16)}
			if j == 0 && t.W(3) != 0 {
				o.kind = first // several tasks make the same first call
			}
			scripts[i] = append(scripts[i], o)
			total++
		}
	}
	r.Ev("cfg tasks=%d ops=%d first=%d", ntasks, total, first) // "cold" is a property of the process, not of the tape: counters only
	cv := cache.NewVerifier(cache.NewLRUCache(2))              // allocation only, no arithmetic
	sim := e.Sim
	sim.Begin(e.SimConfig(func(n int) int { return t.Draw(core.SS, n) }, total*4, uint64(total*2000+10000)))
	logs := make([]*core.Log, ntasks)
	got := make([][][]byte, ntasks)
	for i := range logs {
		logs[i] = r.NewLog(i)
		got[i] = make([][]byte, len(scripts[i]))
	}
	panicked := false
	sim.OnPanic = func(task int, val interface{}, stack []byte) {
		msg := fmt.Sprint(val)
		if quiet {
			panicked = true
			return
		}
		logs[task].Fail("panic", normPanic(msg), "task %d panicked: %s", task, msg)
	}
	for i := range scripts {
		i := i
		sim.Spawn(func(task int) {
			l := logs[i]
			for j, o := range scripts[i] {
				rt.Yield(3903)
				if !quiet {
					l.Ev("invoke %s #%d", dOpNames[o.kind], o.i)
				}
				rt.EnterOp()
				out := dOp(o.kind, o.i, cv)
				rt.ExitOp()
				got[i][j] = out
				if !quiet {
					l.Ev("return %s #%d -> %s", dOpNames[o.kind], o.i, core.H(out))
				}
				r.Count(cD_ops)
				r.Count(cD_kind[o.kind])
			}
		})
	}
	sim.Run()
	r.AddSteps(sim.Yields)
	r.Nontrivial = cold && sim.Switches >= 2
	if !quiet {
		r.Ev("sched policy=%d yields=%d switches=%d hash=%x", sim.Policy(), sim.Yields, sim.Switches, sim.SchedHash)
	}
	if sim.AbortClass != "" {
		r.Fail(sim.AbortClass, sim.AbortClass, "run aborted: %s", sim.AbortClass)
		return
	}
	ref := cache.NewVerifier(cache.NewLRUCache(2))
	if quiet {
		// C06: log what the same calls give when repeated alone on this build (must be equal on every
		// backend); a concurrent deviation is kept by the driver only if it is backend-specific.
		deviates := panicked
		for i := range scripts {
			for j, o := range scripts[i] {
				want := dOp(o.kind, o.i, ref)
				r.Ev("task %d op %d %s #%d -> %s", i, j, dOpNames[o.kind], o.i, core.Hex8(want))
				if !bytes.Equal(got[i][j], want) {
					deviates = true
				}
			}
		}
		if deviates {
			r.Main.FailSilently("backend-concurrency", "cold-start-deviates-from-sequential", "on this build the results (or a panic) of the process's first, concurrent calls differ from the same calls repeated alone")
		}
		return
	}
	for i := range scripts {
		for j, o := range scripts[i] {
			want := dOp(o.kind, o.i, ref)
			if !bytes.Equal(got[i][j], want) {
				r.Fail("sequential-equivalence", dOpNames[o.kind], "task %d op %d %s #%d returned %s under a cold concurrent start, %s when repeated alone", i, j, dOpNames[o.kind], o.i, core.Hex8(got[i][j]), core.Hex8(want))
			}
		}
	}
}
