package work

import (
	"bytes"
	"fmt"

	"github.com/oasisprotocol/curve25519-voi/primitives/sr25519"

	"verifsim/core"
	"verifsim/model"
	"verifsim/rt"
)

// C12 phase C: several signers and verifiers sharing ONE signing context and ONE
// key pair (both are long-lived objects that callers share), preempted between the
// statements of the sr25519 and merlin code.  Every signature must still be the
// schnorrkel one for its own (message, entropy), and must verify.

var (
	c12cOps   = core.RegCounter("c12c.ops")
	c12cSigns = core.RegCounter("c12c.signatures_compared_with_model")
	c12cVer   = core.RegCounter("c12c.verifications")
	c12cBatch = core.RegCounter("c12c.batches")
	c12cInOp  = core.RegCounter("c12c.switches_inside_an_operation")
)

type c12cReq struct {
	kind int     // 0 sign+verify, 1 verify a pre-made signature, 2 batch of pre-made signatures
	src  *c12Src // the message of kind 0 through one of the three transcript constructors
	ent  []byte
	pre  []*sr25519.Signature
	psrc []*c12Src
}

func init() {
	Register(&Workload{
		Name:     "C12C",
		Property: "C12",
		Phase:    "concurrent signers and verifiers sharing one signing context and key pair",
		Variants: []string{"instrw"},
		Rule: "per run: one SigningContext and one KeyPair shared by 2..4 tasks x 1..3 requests (sign + verify, verify, batch verify) over task-specific messages (each through NewTranscriptBytes, NewTranscriptHash or NewTranscriptXOF of the shared context) and fixed entropy; every context switch is a tape draw at a statement-level yield inside primitives/sr25519 and primitives/merlin; oracle: each signature byte-equals the schnorrkel model for its own message and entropy, every signature verifies singly and in a batch; " +
			"non-trivial = at least one switch while the leaving task was inside a request; distinct = distinct event-log digests",
		Real: []string{"primitives/sr25519 and primitives/merlin (statement yields spliced in)", "reference: schnorrkel model (Merlin model + math/big)"},
		Stub: []string{"goroutine scheduler (rt)", "entropy: fixed 32-byte strings"},
		Init: func(e *Env) error { return model.SelfTestMerlin() },
		Run:  runC12C,
	})
}

func runC12C(e *Env, r *core.Run) {
	t := r.T
	g := &Gen{T: t}
	mini := g.Bytes(32)
	m, err := sr25519.NewMiniSecretKeyFromBytes(mini)
	if err != nil {
		panic("harness: mini")
	}
	kp := m.ExpandUniform().KeyPair()
	skm := model.SrExpandUniform(mini)
	pkb := marshalOwned(kp.PublicKey().MarshalBinary())
	ctx := g.Bytes(t.W(16))
	// every transcript of the run is made from this one context object, through all three constructors
	cs := &c12Ctxs{}
	mkSrc := func(msg []byte) *c12Src {
		src := &c12Src{cs: cs, ctx: ctx, kind: t.W(3), hsel: t.W(6), msg: msg}
		src.resolve()
		return src
	}
	pk := kp.PublicKey()
	ntasks := 2 + t.W(3)
	scripts := make([][]c12cReq, ntasks)
	total := 0
	for i := range scripts {
		for j := 0; j < 1+t.W(3); j++ {
			q := c12cReq{kind: t.W(3), src: mkSrc(append(g.Bytes(t.W(40)), byte(i), byte(j))), ent: g.Bytes(32)}
			if q.kind >= 1 {
				n := 1
				if q.kind == 2 {
					n = 1 + t.W(4)
				}
				for k := 0; k < n; k++ {
					ps := mkSrc(append(g.Bytes(t.W(20)), byte(i), byte(j), byte(k)))
					s, err := kp.Sign(NewFixedReader(g.Bytes(32)), ps.fresh())
					if err != nil {
						panic("harness: pre-sign")
					}
					q.pre, q.psrc = append(q.pre, s), append(q.psrc, ps)
				}
			}
			scripts[i] = append(scripts[i], q)
			total++
		}
	}
	r.Ev("cfg tasks=%d requests=%d ctx=%s", ntasks, total, core.Hex8(ctx))
	sim := e.Sim
	sim.Begin(e.SimConfig(func(n int) int { return t.Draw(core.SS, n) }, total*300, uint64(total*600000+100000)))
	logs := make([]*core.Log, ntasks)
	for i := range logs {
		logs[i] = r.NewLog(i)
	}
	sim.OnPanic = func(task int, val interface{}, stack []byte) {
		msg := fmt.Sprint(val)
		logs[task].Fail("panic", normPanic(msg), "task %d panicked: %s", task, msg)
	}
	sigs := make([][][]byte, ntasks)
	for i := range scripts {
		sigs[i] = make([][]byte, len(scripts[i]))
	}
	for i := range scripts {
		i := i
		sim.Spawn(func(task int) {
			l := logs[i]
			for j, q := range scripts[i] {
				rt.Yield(3906)
				r.Count(c12cOps)
				rt.EnterOp()
				switch q.kind {
				case 0:
					st := q.src.fresh()
					sig, err := kp.Sign(NewFixedReader(q.ent), st)
					ok := err == nil && pk.Verify(st, sig)
					if err == nil {
						sigs[i][j] = marshalOwned(sig.MarshalBinary())
					}
					rt.ExitOp()
					l.Ev("req %d sign+verify -> %s %v", j, core.H(sigs[i][j]), ok)
					r.Count(c12cSigns)
					if !ok {
						l.Fail("completeness", "fresh-signature-rejected-under-concurrency", "a signature made while other signers shared the context and key pair does not verify (err=%v)", err)
					}
				case 1:
					ok := pk.Verify(q.psrc[0].fresh(), q.pre[0])
					rt.ExitOp()
					l.Ev("req %d verify -> %v", j, ok)
					r.Count(c12cVer)
					if !ok {
						l.Fail("completeness", "valid-signature-rejected-under-concurrency", "a valid signature was rejected while other callers shared the signing context")
					}
				default:
					bv := sr25519.NewBatchVerifier()
					for k := range q.pre {
						bv.Add(pk, q.psrc[k].fresh(), q.pre[k])
					}
					ok, res := bv.Verify(NewFixedReader(q.ent))
					rt.ExitOp()
					l.Ev("req %d batch n=%d -> %v %v", j, len(q.pre), ok, res)
					r.Count(c12cBatch)
					if !ok {
						l.Fail("completeness", "valid-batch-rejected-under-concurrency", "a batch of valid signatures was rejected while other callers shared the signing context (results %v)", res)
					}
				}
			}
		})
	}
	sim.Run()
	r.AddSteps(sim.Yields)
	r.CountN(c12cInOp, int64(sim.SwitchInOp))
	r.Nontrivial = sim.SwitchInOp >= 1
	r.Ev("sched policy=%d yields=%d switches=%d inop=%d hash=%x", sim.Policy(), sim.Yields, sim.Switches, sim.SwitchInOp, sim.SchedHash)
	if sim.AbortClass != "" {
		r.Fail(sim.AbortClass, sim.AbortClass, "run aborted: %s", sim.AbortClass)
		return
	}
	for i := range scripts {
		for j, q := range scripts[i] {
			if q.kind != 0 || sigs[i][j] == nil {
				continue
			}
			want := model.SrSign(q.src.model(), skm, pkb, q.ent, srMulBase)
			if !bytes.Equal(sigs[i][j], want) {
				r.Fail("exactness", "signature-differs-from-model-under-concurrency", "task %d request %d: with other signers sharing the context and key pair the signature is %x, the schnorrkel model gives %x", i, j, sigs[i][j], want)
				return
			}
		}
	}
	// the shared objects must be what they were
	if !bytes.Equal(marshalOwned(kp.MarshalBinary()), append(skm.Bytes(), pkb...)) {
		r.Fail("caller-object", "shared-keypair-changed", "the shared key pair's marshalled form changed during concurrent signing")
	}
}
