package work

import (
	"bytes"
	"crypto"
	stded "crypto/ed25519"
	"crypto/sha512"
	"math/big"
	"strings"

	"github.com/oasisprotocol/curve25519-voi/curve"
	"github.com/oasisprotocol/curve25519-voi/curve/scalar"
	"github.com/oasisprotocol/curve25519-voi/primitives/ed25519"
	"github.com/oasisprotocol/curve25519-voi/primitives/ed25519/extra/cache"

	"verifsim/core"
	"verifsim/simio"
)

// C02 (scoped): key generation / signing exactness against Go's crypto/ed25519,
// verifiability of every produced signature on every path, rejection after
// alteration on the wire, and the behaviour of the entropy seam.

var (
	c02keysGen     = core.RegCounter("c02.keys_from_GenerateKey")
	c02keysSeed    = core.RegCounter("c02.keys_from_NewKeyFromSeed")
	c02genErr      = core.RegCounter("c02.GenerateKey_with_injected_reader_error")
	c02detSigs     = core.RegCounter("c02.deterministic_signatures_compared_with_stdlib")
	c02pure        = core.RegCounter("c02.variant_pure")
	c02ctx         = core.RegCounter("c02.variant_ctx")
	c02ph          = core.RegCounter("c02.variant_ph")
	c02signerIfc   = core.RegCounter("c02.signed_through_crypto_Signer_with_plain_hash_opts")
	c02pkgSign     = core.RegCounter("c02.signed_through_package_Sign")
	c02hedged      = core.RegCounter("c02.hedged_signatures")
	c02hedgedErr   = core.RegCounter("c02.hedged_with_injected_reader_error")
	c02selfVerify  = core.RegCounter("c02.self_verify_enabled")
	c02verifies    = core.RegCounter("c02.single_verifications_of_produced_signatures")
	c02batches     = core.RegCounter("c02.batch_verifications_of_produced_signatures")
	c02wire        = core.RegCounter("c02.wire_alterations")
	c02bigBatches  = core.RegCounter("c02.batches_past_the_bucket_method_threshold")
	c02wirePair    = core.RegCounter("c02.wire_correlated_alterations_of_two_signatures")
	c02wireSig     = core.RegCounter("c02.wire.signature_bit")
	c02wireMsg     = core.RegCounter("c02.wire.message")
	c02wireKey     = core.RegCounter("c02.wire.key")
	c02wireCtx     = core.RegCounter("c02.wire.context")
	c02wireLen     = core.RegCounter("c02.wire.truncate_or_extend")
	c02invalid     = core.RegCounter("c02.invalid_option_or_length_cases")
	c02chunkTwin   = core.RegCounter("c02.hedged_replayed_with_other_chunking")
	c02enumCases   = core.RegCounter("c02.entropy_error_enumeration_cases")
	c02wireKeyLen  = core.RegCounter("c02.wire.key_truncated_or_extended")
	c02rxReuse     = core.RegCounter("c02.tours_through_one_reused_receive_buffer")
	c02rxCompanion = core.RegCounter("c02.other_signers_tuple_read_into_the_receive_buffer_first")
	c02ctx255      = core.RegCounter("c02.context_of_254_or_255_bytes")
	c02alias       = core.RegCounter("c02.returned_public_key_scribbled_by_the_caller")
)

func init() {
	Register(&Workload{
		Name:     "C02",
		Property: "C02",
		Phase:    "signers, corrupting wire, verifiers on every preset and path",
		Variants: []string{"plain"},
		Rule: "per run: a key from GenerateKey(fault-injecting reader) or NewKeyFromSeed; 1..4 signing requests with tape-chosen variant (pure / ctx with context length 1, 2..20, 254, 255 / ph), message length biased to SHA-512 block seams, entry point (package Sign, PrivateKey.Sign with *Options, crypto.Signer with crypto.Hash opts), AddedRandomness with a fault-injecting entropy reader, SelfVerify, any verify preset; " +
			"oracle: deterministic key and signature byte-equal Go crypto/ed25519; R canonical and S < L; every produced signature verifies under all four presets singly and in a batch (VerifyBatchOnly for the three cofactored presets); after a tape-chosen wire alteration (signature bit, message, key bit, context, truncation/extension) it is rejected on every path; hedged: exactly 32 entropy bytes consumed, same delivered bytes under another chunking => same signature, R differs from the deterministic R and from the R under other entropy, reader error => (nil, error); invalid options / lengths => (nil, error), never a panic; " +
			"non-trivial = at least one wire alteration or entropy fault was evaluated; distinct = distinct event-log digests",
		Real: []string{"ed25519.GenerateKey / NewKeyFromSeed / Sign / PrivateKey.Sign", "ed25519.VerifyWithOptions, BatchVerifier", "reference: Go standard library crypto/ed25519 (independent implementation)"},
		Stub: []string{"entropy reader (simio.Entropy)", "the wire between signer and verifiers"},
		Run:  runC02,
	})
	Register(&Workload{
		Name:     "C02F",
		Property: "C02",
		Phase:    "entropy-error enumeration on hedged signing and key generation",
		Variants: []string{"plain"},
		Rule:     "per run: one key / message / option variant; the entropy stream fails at EVERY byte offset 0..31, each with (0, err), (n>0, err) and clean EOF delivery and three chunk sizes (enumerated, 288 cases per run) for PrivateKey.Sign with AddedRandomness and for GenerateKey; every case must return (nil, error) - never a signature or key; offsets 32.. must succeed; non-trivial = every run; distinct = distinct event-log digests",
		Real:     []string{"ed25519.PrivateKey.Sign (AddedRandomness)", "ed25519.GenerateKey"},
		Stub:     []string{"entropy reader failing at an enumerated offset"},
		Run:      runC02F,
	})
}

var c02presets = []*ed25519.VerifyOptions{ed25519.VerifyOptionsDefault, ed25519.VerifyOptionsStdLib, ed25519.VerifyOptionsFIPS_186_5, ed25519.VerifyOptionsZIP_215}
var c02presetNames = []string{"Default", "StdLib", "FIPS_186_5", "ZIP_215"}

type c02Variant struct {
	ctx string
	ph  bool
}

func c02DrawVariant(r *core.Run, g *Gen) c02Variant {
	t := g.T
	var v c02Variant
	switch t.W(8) {
	case 0, 1, 2:
	case 3:
		v.ctx = string(g.Bytes(1))
	case 4:
		v.ctx = string(g.Bytes(2 + t.W(19)))
	case 5:
		v.ctx = string(g.Bytes(254 + t.W(2)))
		r.Count(c02ctx255)
	case 6:
		v.ph = true
	default:
		v.ph = true
		v.ctx = string(g.Bytes(1 + t.W(30)))
	}
	return v
}

func (v c02Variant) hash() crypto.Hash {
	if v.ph {
		return crypto.SHA512
	}
	return 0
}

// allVerify verifies (pk, msg, sig) under every preset singly and in a batch and
// reports how many paths accepted, out of how many.
// c02companion is a valid (key, message, signature) of another signer, made once per worker.
var c02companion *struct{ pk, msg, sig []byte }

func c02MakeCompanion() {
	if c02companion != nil {
		return
	}
	seed := sha512.Sum512_256([]byte("c02 companion"))
	k := ed25519.NewKeyFromSeed(seed[:])
	m := []byte("a neighbour in the batch")
	c02companion = &struct{ pk, msg, sig []byte }{clone(k[32:]), m, ed25519.Sign(k, m)}
}

// A verifier's receive buffer: in half of the runs every tuple is copied into the SAME backing array before
// the tour (a server reading requests into one buffer), sometimes after another signer's honest tuple went
// through it; what earlier requests left there, and whatever the library remembered, must not show.
var (
	c02cvOwner *core.Run
	c02cv      *cache.Verifier
	c02rxOwner *core.Run
	c02rxOn    bool
	c02rx      []byte
)

func c02Receive(r *core.Run, pk, msg, sig []byte) ([]byte, []byte, []byte) {
	if c02rxOwner != r {
		c02rxOwner, c02rx, c02rxOn = r, nil, r.T.W(2) == 1
	}
	if !c02rxOn {
		return pk, msg, sig
	}
	place := func(parts ...[]byte) [][]byte {
		need := 0
		for _, p := range parts {
			need += len(p)
		}
		if cap(c02rx) < need {
			c02rx = make([]byte, 2*need+256)
		}
		out := make([][]byte, len(parts))
		off := 0
		for i, p := range parts {
			if p != nil {
				out[i] = c02rx[off : off+copy(c02rx[off:], p)]
			}
			off += len(p)
		}
		return out
	}
	if c02companion != nil && r.T.W(3) == 0 {
		c := place(c02companion.pk, c02companion.msg, c02companion.sig)
		ok := false
		pan, _ := Guard(func() { ok = ed25519.Verify(c[0], c[1], c[2]) })
		r.Count(c02rxCompanion)
		if (pan || !ok) && len(r.Main.Fails()) == 0 {
			r.Fail("completeness", "other-signer-rejected", "another signer's honest tuple, read into the verifier's receive buffer after earlier requests, was rejected")
		}
	}
	p := place(pk, msg, sig)
	r.Count(c02rxReuse)
	return p[0], p[1], p[2]
}

func c02AllPaths(r *core.Run, pk, msg, sig []byte, v c02Variant) (acc, total int, detail string) {
	pk, msg, sig = c02Receive(r, pk, msg, sig)
	// one precomputed key for the whole tour, as a verifier that keeps expanded keys of
	// known signers has: it is used under every preset, singly and in batches, several times
	var ek *ed25519.ExpandedPublicKey
	if pan, _ := Guard(func() { ek, _ = ed25519.NewExpandedPublicKey(pk) }); pan {
		ek = nil
	}
	// ... and one batch verifier for the whole tour, Reset between batches as the documentation invites,
	// alternating between expanded and unexpanded entries, clean batches and batches that need the serial pass
	rv := ed25519.NewBatchVerifier()
	var ovar ed25519.Options // callers of the receive-buffer kind also keep ONE Options variable and overwrite its fields per call
	for i, p := range c02presets {
		o := &ed25519.Options{Hash: v.hash(), Context: v.ctx, Verify: p}
		if c02rxOn {
			ovar = *o
			o = &ovar
		}
		if c02companion != nil {
			co := &ed25519.Options{Verify: p}
			rv.Reset()
			forced, withBad := i >= 2, i%2 == 1 // the four combinations over the four presets
			if forced {
				rv.ForceNoPublicKeyExpansion()
				rv.AddWithOptions(pk, msg, sig, o)
				rv.AddWithOptions(c02companion.pk, c02companion.msg, c02companion.sig, co)
			} else {
				rv.AddWithOptions(c02companion.pk, c02companion.msg, c02companion.sig, co)
				rv.AddWithOptions(pk, msg, sig, o)
			}
			if withBad {
				rv.AddWithOptions(c02companion.pk, c02companion.msg, c02companion.sig[:63], co)
			}
			// asking the batch-only question first (and again afterwards) must not change any answer
			// (twice in a row as well: an effect that undoes itself on every second call would hide behind Verify's own batch pass)
			bo1 := rv.VerifyBatchOnly(NewDetReader(uint64(i) + 71))
			bo1b := rv.VerifyBatchOnly(NewDetReader(uint64(i) + 73))
			_, rres := rv.Verify(NewDetReader(uint64(i) + 61))
			bo2 := rv.VerifyBatchOnly(NewDetReader(uint64(i) + 72))
			r.Count(c02batches)
			total++
			if len(rres) == 2+i%2 && rres[0] && rres[1] && bo1 == bo1b && bo1 == bo2 && (!withBad || !bo1) {
				acc++
			} else if detail == "" {
				detail = "batch in a verifier reused after Reset/" + c02presetNames[i]
			}
		}
		var ok bool
		pan, pmsg := Guard(func() { ok = ed25519.VerifyWithOptions(pk, msg, sig, o) })
		if pan {
			// a documented panic (key that is not 32 bytes, pre-hash that is not 64 bytes, context over 255 bytes) counts
			// as rejection; any other panic is not an answer
			if len(pk) == ed25519.PublicKeySize && (!v.ph || len(msg) == 64) && len(v.ctx) <= ed25519.ContextMaxSize && len(r.Main.Fails()) == 0 {
				r.Fail("integrity", "verify-panicked", "VerifyWithOptions[%s] panicked on a %d-byte signature where it documents no panic: %s", c02presetNames[i], len(sig), pmsg)
			}
			ok = false
		}
		r.Count(c02verifies)
		total++
		if ok {
			acc++
		} else if detail == "" {
			detail = "single/" + c02presetNames[i]
		}
		bv := ed25519.NewBatchVerifier()
		bv.AddWithOptions(pk, msg, sig, o)
		bok, res := bv.Verify(NewDetReader(uint64(i) + 1))
		r.Count(c02batches)
		total++
		if bok && len(res) == 1 && res[0] {
			acc++
		} else if detail == "" {
			detail = "batch/" + c02presetNames[i]
		}
		// the same entry in company: next to a valid entry, and next to a valid and a malformed one
		// (a batch in the field is never one signature); its own result must not depend on its neighbours
		if c02companion != nil {
			for k := 0; k < 2; k++ {
				cb := ed25519.NewBatchVerifier()
				cb.AddWithOptions(c02companion.pk, c02companion.msg, c02companion.sig, &ed25519.Options{Verify: p})
				cb.AddWithOptions(pk, msg, sig, o)
				if k == 1 {
					cb.AddWithOptions(c02companion.pk, c02companion.msg, c02companion.sig[:63], &ed25519.Options{Verify: p})
				}
				_, cres := cb.Verify(NewDetReader(uint64(i) + 21))
				r.Count(c02batches)
				total++
				if len(cres) == 2+k && cres[0] && cres[1] {
					acc++
				} else if detail == "" {
					detail = []string{"batch with a valid neighbour/", "batch with a valid and a malformed neighbour/"}[k] + c02presetNames[i]
				}
			}
		}
		// through the caching verifier (a small LRU kept for the whole run, shared with another signer's key):
		// miss, hit, and the entry a batch gets from it
		if c02companion != nil {
			if c02cvOwner != r {
				c02cvOwner, c02cv = r, cache.NewVerifier(cache.NewLRUCache(1))
			}
			cok := false
			if pan, _ := Guard(func() { cok = c02cv.Verify(c02companion.pk, c02companion.msg, c02companion.sig) }); (pan || !cok) && len(r.Main.Fails()) == 0 {
				r.Fail("completeness", "other-signer-rejected", "another signer's honest tuple was rejected by the caching verifier that also serves this run's key")
			}
			for k := 0; k < 2; k++ {
				vok := false
				if pan, _ := Guard(func() { vok = c02cv.VerifyWithOptions(pk, msg, sig, o) }); pan {
					vok = false
				}
				r.Count(c02verifies)
				total++
				if vok {
					acc++
				} else if detail == "" {
					detail = []string{"single through the caching verifier (miss)/", "single through the caching verifier (hit)/"}[k] + c02presetNames[i]
				}
			}
			cb := ed25519.NewBatchVerifier()
			c02cv.AddWithOptions(cb, pk, msg, sig, o)
			c02cv.Add(cb, c02companion.pk, c02companion.msg, c02companion.sig)
			_, cres := cb.Verify(NewDetReader(uint64(i) + 81))
			r.Count(c02batches)
			total++
			if len(cres) == 2 && cres[0] && cres[1] {
				acc++
			} else if detail == "" {
				detail = "batch filled through the caching verifier/" + c02presetNames[i]
			}
		}
		// the precomputed key: singly (twice: the key object must not be changed by use) and in a batch
		for k := 0; k < 2; k++ {
			eok := false
			if ek != nil {
				if pan, pmsg := Guard(func() { eok = ed25519.VerifyExpandedWithOptions(ek, msg, sig, o) }); pan {
					if (!v.ph || len(msg) == 64) && len(v.ctx) <= ed25519.ContextMaxSize && len(r.Main.Fails()) == 0 {
						r.Fail("integrity", "verify-panicked", "VerifyExpandedWithOptions[%s] panicked on a %d-byte signature where it documents no panic: %s", c02presetNames[i], len(sig), pmsg)
					}
					eok = false
				}
			}
			r.Count(c02verifies)
			total++
			if eok {
				acc++
			} else if detail == "" {
				detail = []string{"single with a precomputed key/", "single with the same precomputed key again/"}[k] + c02presetNames[i]
			}
		}
		{
			eb := ed25519.NewBatchVerifier()
			if ek != nil {
				eb.AddExpandedWithOptions(ek, msg, sig, o)
				eb.AddWithOptions(pk, msg, sig, o)
			} else {
				eb.AddWithOptions(pk, msg, sig, o)
				eb.AddWithOptions(pk, msg, sig, o)
			}
			_, eres := eb.Verify(NewDetReader(uint64(i) + 41))
			r.Count(c02batches)
			total++
			if len(eres) == 2 && eres[0] && eres[1] {
				acc++
			} else if detail == "" {
				detail = "batch with a precomputed key/" + c02presetNames[i]
			}
		}
		if !p.CofactorlessVerify {
			bo := bv.VerifyBatchOnly(NewDetReader(uint64(i) + 9))
			total++
			if bo {
				acc++
			} else if detail == "" {
				detail = "batch-only/" + c02presetNames[i]
			}
		}
		// ... and in a batch of the size a block validator builds (past the threshold at which the batch
		// equation switches to the bucket method), among another signer's valid entries, at a drawn position
		if c02companion != nil && r.T.W(24) == 0 {
			n := 95 + r.T.W(10)
			pos := r.T.W(n)
			big := ed25519.NewBatchVerifier()
			if r.T.W(2) == 1 {
				big.ForceNoPublicKeyExpansion()
			}
			co := &ed25519.Options{Verify: p}
			for k := 0; k < n; k++ {
				if k == pos {
					big.AddWithOptions(pk, msg, sig, o)
				} else {
					big.AddWithOptions(c02companion.pk, c02companion.msg, c02companion.sig, co)
				}
			}
			r.Count(c02bigBatches)
			bo := false
			if !p.CofactorlessVerify {
				bo = big.VerifyBatchOnly(NewDetReader(uint64(i) + 31))
				total++
				if bo {
					acc++
				} else if detail == "" {
					detail = "batch-only of a large batch/" + c02presetNames[i]
				}
			}
			_, bres := big.Verify(NewDetReader(uint64(i) + 32))
			total++
			others := len(bres) == n
			for k := range bres {
				if k != pos && !bres[k] {
					others = false
				}
			}
			if !others && len(r.Main.Fails()) == 0 {
				r.Fail("completeness", "companion-rejected-in-large-batch", "in a %d-entry batch (%s) another signer's valid entries were reported invalid: %v", n, c02presetNames[i], bres)
			}
			if len(bres) == n && bres[pos] {
				acc++
			} else if detail == "" {
				detail = "large batch/" + c02presetNames[i]
			}
		}
	}
	return
}

func runC02(e *Env, r *core.Run) {
	c02MakeCompanion()
	t := r.T
	g := &Gen{T: t}
	nontrivial := false
	// ---- key ----
	var priv ed25519.PrivateKey
	var pub ed25519.PublicKey
	if t.W(2) == 0 {
		ent := simio.NewEntropy(r, simio.EntropyCfg{Chunking: true, Degenerate: true, Errors: true, ErrWindow: 40})
		p, k, err := ed25519.GenerateKey(ent)
		r.Count(c02keysGen)
		if ent.WillFail(32) {
			r.Count(c02genErr)
			nontrivial = true
			r.Ev("GenerateKey(reader failing at %d) -> err=%v", len(ent.Delivered), err != nil)
			if err == nil || p != nil || k != nil {
				r.Fail("fault-rule", "GenerateKey-succeeded-on-reader-error", "GenerateKey returned a key although the entropy reader failed after %d bytes", len(ent.Delivered))
				return
			}
			priv = ed25519.NewKeyFromSeed(g.Bytes(32))
		} else {
			if err != nil {
				r.Fail("fault-rule", "GenerateKey-failed-without-error", "GenerateKey failed (%v) although 32 bytes were delivered", err)
				return
			}
			if len(ent.Delivered) != 32 {
				r.Fail("exactness", "GenerateKey-consumed-wrong-amount", "GenerateKey consumed %d entropy bytes", len(ent.Delivered))
				return
			}
			if !bytes.Equal(k.Seed(), ent.Delivered) || !bytes.Equal(p, k[32:]) {
				r.Fail("exactness", "GenerateKey-seed", "GenerateKey's private key does not carry the delivered entropy as its seed")
				return
			}
			priv = k
			// what GenerateKey hands back must not share memory with the private key: a caller that
			// edits its copy of the public key (to build a negative test, to reuse the buffer) must
			// not change what the key signs
			for i := range p {
				p[i] ^= 0xff
			}
			r.Count(c02alias)
		}
	} else {
		// the seed is a slice with spare capacity inside a guarded buffer (a seed cut out of a key
		// file); after derivation the caller wipes it, which must not reach the derived key
		gs := NewGuarded(g.Bytes(32))
		seedCopy := clone(gs.B())
		priv = ed25519.NewKeyFromSeed(gs.B())
		r.Count(c02keysSeed)
		content, guard := gs.Intact()
		if !content || !guard {
			r.Fail("caller-memory", "seed-buffer-modified", "NewKeyFromSeed modified the caller's seed buffer (seed intact: %v, bytes behind it intact: %v)", content, guard)
			return
		}
		b := gs.B()
		for i := range b[:cap(b)] {
			b[:cap(b)][i] = 0
		}
		if !bytes.Equal(priv, stded.NewKeyFromSeed(seedCopy)) {
			r.Fail("exactness", "derived-key-aliases-seed-buffer", "after the caller wiped its seed buffer the derived private key is no longer the RFC 8032 key of the seed")
			return
		}
	}
	pub = ed25519.PublicKey(priv[32:])
	seed := priv.Seed()
	spriv := stded.NewKeyFromSeed(seed)
	r.Ev("key seed=%s pub=%s", core.Hex8(seed), core.Hex8(pub))
	if !bytes.Equal(priv, spriv) {
		r.Fail("exactness", "key-derivation", "NewKeyFromSeed(%x) = %x, crypto/ed25519 gives %x", seed, []byte(priv), []byte(spriv))
		return
	}
	if pk2, ok := priv.Public().(ed25519.PublicKey); !ok || !bytes.Equal(pk2, pub) {
		r.Fail("exactness", "Public", "PrivateKey.Public() does not return the key's public half")
		return
	} else {
		// returned values are the caller's: scribbling on them must not reach the key
		sd := priv.Seed()
		for i := range pk2 {
			pk2[i] ^= 0xff
		}
		for i := range sd {
			sd[i] ^= 0xff
		}
		if !bytes.Equal(priv, spriv) {
			r.Fail("exactness", "returned-value-aliases-private-key", "after the caller modified the values returned by GenerateKey / Public() / Seed(), the private key is no longer the RFC 8032 key of its seed")
			return
		}
	}

	nreq := 1 + t.W(4)
	for q := 0; q < nreq && len(r.Main.Fails()) == 0; q++ {
		r.AddSteps(1)
		v := c02DrawVariant(r, g)
		msg := g.Msg()
		if v.ph {
			d := sha512.Sum512(msg)
			msg = d[:]
			r.Count(c02ph)
		} else if v.ctx != "" {
			r.Count(c02ctx)
		} else {
			r.Count(c02pure)
		}
		// reference signature (deterministic)
		ref, err := spriv.Sign(nil, msg, &stded.Options{Hash: v.hash(), Context: v.ctx})
		if err != nil {
			panic("harness: stdlib refused a valid request: " + err.Error())
		}
		// ---- sign ----
		// key and message live in one allocation ("key | gap | message | guard"): both slices have
		// spare capacity; a signer that appends to or writes behind its arguments changes the buffer
		pg := NewPackedGuarded(priv, msg)
		priv, msg := ed25519.PrivateKey(pg.Part(0)), pg.Part(1)
		var sig []byte
		hedged := false
		opts := &ed25519.Options{Hash: v.hash(), Context: v.ctx}
		if t.W(3) == 0 {
			opts.Verify = c02presets[t.W(4)]
		}
		if t.W(3) == 0 {
			opts.SelfVerify = true
			r.Count(c02selfVerify)
		}
		entry := t.W(4)
		switch {
		case entry == 0 && v.ctx == "" && !v.ph && !opts.SelfVerify:
			pan, pmsg := Guard(func() { sig = ed25519.Sign(priv, msg) })
			if pan {
				r.Fail("completeness", "package-Sign-panicked", "ed25519.Sign panicked on a valid key: %s", pmsg)
				return
			}
			r.Count(c02pkgSign)
		case entry == 1 && v.ctx == "":
			// crypto.Signer with a plain crypto.Hash as opts
			var signer crypto.Signer = priv
			var so crypto.SignerOpts = crypto.Hash(0)
			if v.ph {
				so = crypto.SHA512
			}
			sig, err = signer.Sign(nil, msg, so)
			r.Count(c02signerIfc)
		case entry == 2:
			hedged = true
			opts.AddedRandomness = true
			ent := simio.NewEntropy(r, simio.EntropyCfg{Chunking: true, Degenerate: true, Errors: true, ErrWindow: 40})
			sig, err = priv.Sign(ent, msg, opts)
			r.Count(c02hedged)
			if ent.WillFail(32) {
				r.Count(c02hedgedErr)
				nontrivial = true
				r.Ev("hedged Sign(reader failing at %d) -> err=%v", len(ent.Delivered), err != nil)
				if err == nil || sig != nil {
					r.Fail("fault-rule", "Sign-succeeded-on-reader-error", "hedged Sign returned a signature although the entropy reader failed after %d bytes", len(ent.Delivered))
					return
				}
				continue
			}
			if err == nil {
				if len(ent.Delivered) != 32 {
					r.Fail("exactness", "hedged-consumed-wrong-amount", "hedged Sign consumed %d entropy bytes, want 32", len(ent.Delivered))
					return
				}
				// same delivered bytes, other chunking => same signature
				tw := simio.FixedEntropy(r, ent.Delivered, -1, 0)
				tw.SetChunk(1 + t.W(40))
				s2, err2 := priv.Sign(tw, msg, opts)
				r.Count(c02chunkTwin)
				if err2 != nil || !bytes.Equal(s2, sig) {
					r.Fail("entropy-dependence", "chunking-changes-signature", "the same 32 entropy bytes delivered in other chunks gave a different signature")
					return
				}
				// other entropy => other R
				other := clone(ent.Delivered)
				other[t.W(32)] ^= 1 << uint(t.W(8))
				s3, err3 := priv.Sign(simio.FixedEntropy(r, other, -1, 0), msg, opts)
				if err3 != nil || bytes.Equal(s3[:32], sig[:32]) {
					r.Fail("entropy-dependence", "entropy-ignored", "hedged signatures under two different entropy strings share R")
					return
				}
				if bytes.Equal(sig[:32], ref[:32]) {
					r.Fail("entropy-dependence", "deterministic-nonce-reused", "hedged signature has the deterministic R")
					return
				}
			}
		default:
			sig, err = priv.Sign(nil, msg, opts)
		}
		if err != nil {
			r.Fail("completeness", "valid-request-refused", "signing a valid request (ctx %d bytes, ph=%v) failed: %v", len(v.ctx), v.ph, err)
			return
		}
		if !pg.Intact() {
			r.Fail("caller-memory", "caller-buffer-modified", "the buffer holding the caller's private key and message (key | gap | message | guard) was modified by signing")
			return
		}
		r.Ev("sign entry=%d ctx=%d ph=%v hedged=%v msg=%s -> %s", entry, len(v.ctx), v.ph, hedged, core.Hex8(msg), core.Hex8(sig))
		if !hedged {
			r.Count(c02detSigs)
			if !bytes.Equal(sig, ref) {
				r.Fail("exactness", "signature-differs-from-stdlib", "signature over a %d-byte message (ctx %d bytes, ph=%v) = %x, crypto/ed25519 gives %x", len(msg), len(v.ctx), v.ph, sig, ref)
				return
			}
		}
		// shape
		var rc curve.CompressedEdwardsY
		if len(sig) != 64 {
			r.Fail("exactness", "signature-length", "signature of %d bytes", len(sig))
			return
		}
		_, _ = rc.SetBytes(sig[:32])
		if !rc.IsCanonicalVartime() || !scalar.ScMinimalVartime(sig[32:]) {
			r.Fail("exactness", "non-canonical-signature", "produced signature has a non-canonical R or S >= L: %x", sig)
			return
		}
		if !stded.Verify(stded.PublicKey(pub), msg, sig) && v.ctx == "" && !v.ph {
			r.Fail("exactness", "stdlib-rejects-produced-signature", "crypto/ed25519 rejects a signature the library produced")
			return
		}
		// every path accepts
		if acc, total, where := c02AllPaths(r, pub, msg, sig, v); acc != total {
			r.Fail("completeness", "produced-signature-rejected", "a signature the library produced (ctx %d bytes, ph=%v, hedged=%v) was rejected on path %s (%d of %d paths accept)", len(v.ctx), v.ph, hedged, where, acc, total)
			return
		}
		// ---- wire alteration ----
		if t.W(4) != 0 {
			nontrivial = true
			r.Count(c02wire)
			apk, amsg, asig, av := clone(pub), clone(msg), clone(sig), v
			what := ""
			switch t.W(7) {
			case 6:
				switch t.W(3) {
				case 0:
					apk = apk[:t.W(32)]
				case 1:
					apk = append(apk, byte(t.W(256)))
				default:
					apk = append(apk, pub...) // the key twice (a duplicated field)
				}
				what = "key length"
				r.Count(c02wireKeyLen)
			case 0, 1:
				i := t.W(512)
				asig[i/8] ^= 1 << uint(i%8)
				what = "signature bit"
				r.Count(c02wireSig)
			case 2:
				if len(amsg) == 0 || (t.W(2) == 0 && !v.ph) {
					amsg = append(amsg, byte(t.W(256)))
				} else {
					amsg[t.W(len(amsg))] ^= 1 << uint(t.W(8))
				}
				what = "message"
				r.Count(c02wireMsg)
			case 3:
				i := t.W(256)
				apk[i/8] ^= 1 << uint(i%8)
				what = "key bit"
				r.Count(c02wireKey)
			case 4:
				switch {
				case v.ctx == "":
					av.ctx = "x"
				case t.W(2) == 0 && !v.ph:
					av.ctx = ""
				default:
					b := []byte(v.ctx)
					b[t.W(len(b))] ^= 1 << uint(t.W(8))
					av.ctx = string(b)
				}
				what = "context"
				r.Count(c02wireCtx)
			default:
				if t.W(2) == 0 {
					asig = asig[:t.W(64)]
				} else {
					asig = append(asig, byte(t.W(256)))
				}
				what = "signature length"
				r.Count(c02wireLen)
			}
			acc, total, _ := c02AllPaths(r, apk, amsg, asig, av)
			r.Ev("wire alteration: %s -> accepted on %d of %d paths", what, acc, total)
			if acc != 0 {
				r.Fail("integrity", "altered-"+strings.ReplaceAll(what, " ", "-")+"-accepted", "after altering the %s the signature still verifies on %d of %d paths", what, acc, total)
				return
			}
			// ---- correlated alteration of two tuples in flight: S+d on this signature, S-d on another signer's.
			// Each is rejected alone; a batch must reject both (the sum of the defects is zero, so a batch
			// equation whose per-entry coefficients are not independent would accept them together).
			if c02companion != nil && t.W(4) == 0 && len(r.Main.Fails()) == 0 {
				r.Count(c02wirePair)
				d := int64(1 + t.W(7))
				s1, s2 := clone(sig), clone(c02companion.sig)
				c02AddToS(s1, d)
				c02AddToS(s2, -d)
				for i, p := range c02presets {
					o1 := &ed25519.Options{Hash: v.hash(), Context: v.ctx, Verify: p}
					o2 := &ed25519.Options{Verify: p}
					a1, a2 := false, false
					Guard(func() { a1 = ed25519.VerifyWithOptions(pub, msg, s1, o1) })
					Guard(func() { a2 = ed25519.VerifyWithOptions(c02companion.pk, c02companion.msg, s2, o2) })
					bv := ed25519.NewBatchVerifier()
					if t.W(2) == 1 {
						bv.ForceNoPublicKeyExpansion()
					}
					if t.W(2) == 1 {
						bv.AddWithOptions(pub, msg, s1, o1)
						bv.AddWithOptions(c02companion.pk, c02companion.msg, s2, o2)
					} else {
						bv.AddWithOptions(c02companion.pk, c02companion.msg, s2, o2)
						bv.AddWithOptions(pub, msg, s1, o1)
					}
					bo := false
					if t.W(2) == 1 {
						Guard(func() { bo = bv.VerifyBatchOnly(NewDetReader(uint64(i) + 91)) })
					}
					ok, res := false, []bool(nil)
					Guard(func() { ok, res = bv.Verify(NewDetReader(uint64(i) + 92)) })
					anyRes := false
					for _, x := range res {
						anyRes = anyRes || x
					}
					r.Ev("correlated alteration d=%d %s: single %v %v batch-only %v batch %v %v", d, c02presetNames[i], a1, a2, bo, ok, res)
					if a1 || a2 || bo || ok || anyRes {
						r.Fail("integrity", "altered-pair-of-signatures-accepted", "S+%d on one signature and S-%d on another signer's (%s): accepted singly %v / %v, batch-only %v, batch %v %v - every one of these must be false", d, d, c02presetNames[i], a1, a2, bo, ok, res)
						return
					}
				}
			}
		}
	}
	// ---- invalid options / lengths: error and nil signature, never a panic ----
	if t.W(2) == 0 && len(r.Main.Fails()) == 0 {
		r.Count(c02invalid)
		msg := g.Msg()
		var o crypto.SignerOpts
		key := priv
		what := ""
		switch t.W(8) {
		case 0:
			o, what = &ed25519.Options{Context: strings.Repeat("x", 256+t.W(10))}, "context longer than 255"
		case 1:
			o, what = &ed25519.Options{Hash: crypto.SHA256}, "Options.Hash = SHA-256"
		case 2:
			if len(msg) == 64 {
				msg = msg[:63]
			}
			o, what = &ed25519.Options{Hash: crypto.SHA512}, "ph with a message that is not 64 bytes"
		case 3:
			o, what = &ed25519.Options{Verify: &ed25519.VerifyOptions{AllowNonCanonicalR: true, CofactorlessVerify: true}}, "incompatible verify options"
		case 4:
			o, what = crypto.SHA256, "crypto.SHA256 as SignerOpts"
		case 5:
			if len(msg) == 64 {
				msg = msg[:63]
			}
			o, what = crypto.SHA512, "crypto.SHA512 with a message that is not 64 bytes"
		case 6:
			key = priv[:t.W(64)]
			o, what = &ed25519.Options{}, "private key of the wrong length"
		default:
			key = append(clone(priv), 0)
			o, what = crypto.Hash(0), "private key of 65 bytes"
		}
		var sig []byte
		var err error
		pan, pmsg := Guard(func() { sig, err = key.Sign(NewDetReader(1), msg, o) })
		r.Ev("invalid request: %s -> err=%v", what, err != nil)
		if pan {
			r.Fail("invalid-input", "Sign-panicked", "PrivateKey.Sign panicked on %s: %s", what, pmsg)
		} else if err == nil || sig != nil {
			r.Fail("invalid-input", "Sign-accepted-invalid-request", "PrivateKey.Sign returned (%x, %v) for %s", sig, err, what)
		}
	}
	r.Nontrivial = nontrivial
}

func runC02F(e *Env, r *core.Run) {
	t := r.T
	g := &Gen{T: t}
	priv := ed25519.NewKeyFromSeed(g.Bytes(32))
	v := c02DrawVariant(r, g)
	msg := g.Msg()
	if v.ph {
		d := sha512.Sum512(msg)
		msg = d[:]
	}
	opts := &ed25519.Options{Hash: v.hash(), Context: v.ctx, AddedRandomness: true, SelfVerify: t.W(2) == 1}
	ent := g.Bytes(64)
	r.Ev("key=%s ctx=%d ph=%v msg=%s", core.Hex8(priv[32:]), len(v.ctx), v.ph, core.Hex8(msg))
	r.Nontrivial = true
	for at := 0; at < 34; at++ {
		for kind := 0; kind < 3; kind++ {
			for _, chunk := range []int{1, 5, 64} {
				r.Count(c02enumCases)
				r.AddSteps(1)
				rd := simio.FixedEntropy(r, ent, at, kind)
				rd.SetChunk(chunk)
				sig, err := priv.Sign(rd, msg, opts)
				if at < 32 {
					if err == nil || sig != nil {
						r.Fail("fault-rule", "Sign-succeeded-on-reader-error", "hedged Sign returned a signature although the reader failed at offset %d (delivery kind %d, chunk %d)", at, kind, chunk)
						return
					}
				} else if err != nil {
					r.Fail("fault-rule", "Sign-failed-after-32-bytes", "hedged Sign failed (%v) although the reader only fails at offset %d", err, at)
					return
				}
				rd = simio.FixedEntropy(r, ent, at, kind)
				rd.SetChunk(chunk)
				pk, k, err := ed25519.GenerateKey(rd)
				if at < 32 {
					if err == nil || pk != nil || k != nil {
						r.Fail("fault-rule", "GenerateKey-succeeded-on-reader-error", "GenerateKey returned a key although the reader failed at offset %d (delivery kind %d, chunk %d)", at, kind, chunk)
						return
					}
				} else if err != nil {
					r.Fail("fault-rule", "GenerateKey-failed-after-32-bytes", "GenerateKey failed (%v) although the reader only fails at offset %d", err, at)
					return
				}
			}
		}
	}
	r.Ev("enumerated 34 offsets x 3 delivery kinds x 3 chunk sizes")
}

// c02AddToS replaces the scalar half of a signature by S + d modulo the group order (a public parameter
// of the curve), keeping it canonical.
func c02AddToS(sig []byte, d int64) {
	l, _ := new(big.Int).SetString("7237005577332262213973186563042994240857116359379907606001950938285454250989", 10)
	le := make([]byte, 32)
	for i := range le {
		le[i] = sig[63-i]
	}
	x := new(big.Int).SetBytes(le)
	x.Add(x, big.NewInt(d)).Mod(x, l)
	be := x.FillBytes(make([]byte, 32))
	for i := range be {
		sig[32+i] = be[31-i]
	}
}
