package work

import (
	"bytes"
	"fmt"

	"github.com/oasisprotocol/curve25519-voi/primitives/ed25519"
	"github.com/oasisprotocol/curve25519-voi/primitives/ed25519/extra/ecvrf"

	"verifsim/core"
	"verifsim/model"
	"verifsim/rt"
)

// C15 phase C: several provers and verifiers using ONE private key at once (the key
// is a slice with spare capacity, as a key read from a file has), preempted between
// the statements of ecvrf.go and h2c.  Each proof must be the RFC 9381 proof of its
// own input, verify, and give the model's output.

var (
	c15cOps  = core.RegCounter("c15c.ops")
	c15cInOp = core.RegCounter("c15c.switches_inside_an_operation")
)

type c15cReq struct {
	kind  int // 0 prove, 1 prove_v10, 2 hedged prove + verify, 3 verify a pre-made proof
	alpha []byte
	ent   []byte
	pre   []byte
}

func init() {
	Register(&Workload{
		Name:     "C15C",
		Property: "C15",
		Phase:    "concurrent provers and verifiers using one private key",
		Variants: []string{"instrw"},
		Rule: "per run: one private key (a slice with spare capacity inside a guarded buffer) shared by 2..4 tasks x 1..3 requests (Prove, Prove_v10, hedged prove + verify, verify) over task-specific inputs; every context switch is a tape draw at a statement-level yield inside ecvrf.go / h2c; oracle: deterministic proofs byte-equal the RFC 9381 model, every proof verifies and yields the model's output, the guarded buffer is unchanged; " +
			"non-trivial = at least one switch while the leaving task was inside a request; distinct = distinct event-log digests",
		Real: []string{"ecvrf (statement yields spliced in), primitives/h2c", "reference: RFC 9381 model"},
		Stub: []string{"goroutine scheduler (rt)", "entropy: fixed 32-byte strings"},
		Init: func(e *Env) error { c15ModelErr = model.SelfTestECVRF(); return nil },
		Run:  runC15C,
	})
}

func runC15C(e *Env, r *core.Run) {
	if c15KnownAnswers(r) {
		return
	}
	t := r.T
	g := &Gen{T: t}
	pg := NewPackedGuarded(g.EdKey())
	sk := ed25519.PrivateKey(pg.Part(0))
	pk := ed25519.PublicKey(clone(sk[32:]))
	ntasks := 2 + t.W(3)
	scripts := make([][]c15cReq, ntasks)
	total := 0
	for i := range scripts {
		for j := 0; j < 1+t.W(3); j++ {
			q := c15cReq{kind: t.W(4), alpha: append(g.Bytes(t.W(40)), byte(i), byte(j)), ent: g.Bytes(32)}
			if q.kind == 3 {
				pi, _, err := model.ECVRFProve(sk[:32], q.alpha, false)
				if err != nil {
					panic("harness: model prove")
				}
				q.pre = pi
			}
			scripts[i] = append(scripts[i], q)
			total++
		}
	}
	r.Ev("cfg tasks=%d requests=%d pk=%s", ntasks, total, core.Hex8(pk))
	sim := e.Sim
	sim.Begin(e.SimConfig(func(n int) int { return t.Draw(core.SS, n) }, total*200, uint64(total*600000+100000)))
	logs := make([]*core.Log, ntasks)
	outs := make([][][]byte, ntasks)
	for i := range logs {
		logs[i] = r.NewLog(i)
		outs[i] = make([][]byte, len(scripts[i]))
	}
	sim.OnPanic = func(task int, val interface{}, stack []byte) {
		msg := fmt.Sprint(val)
		logs[task].Fail("panic", normPanic(msg), "task %d panicked: %s", task, msg)
	}
	for i := range scripts {
		i := i
		sim.Spawn(func(task int) {
			l := logs[i]
			for j, q := range scripts[i] {
				rt.Yield(3907)
				r.Count(c15cOps)
				rt.EnterOp()
				switch q.kind {
				case 0:
					outs[i][j] = ecvrf.Prove(sk, q.alpha)
				case 1:
					outs[i][j] = ecvrf.Prove_v10(sk, q.alpha)
				case 2:
					pi, err := ecvrf.ProveWithAddedRandomness(NewFixedReader(q.ent), sk, q.alpha)
					ok, beta := false, []byte(nil)
					if err == nil {
						ok, beta = ecvrf.Verify(pk, pi, q.alpha)
					}
					if ok {
						outs[i][j] = beta
					}
				default:
					ok, beta := ecvrf.Verify(pk, q.pre, q.alpha)
					if ok {
						outs[i][j] = beta
					}
				}
				rt.ExitOp()
				l.Ev("req %d kind=%d -> %s", j, q.kind, core.H(outs[i][j]))
			}
		})
	}
	sim.Run()
	r.AddSteps(sim.Yields)
	r.CountN(c15cInOp, int64(sim.SwitchInOp))
	r.Nontrivial = sim.SwitchInOp >= 1
	r.Ev("sched policy=%d yields=%d switches=%d inop=%d hash=%x", sim.Policy(), sim.Yields, sim.Switches, sim.SwitchInOp, sim.SchedHash)
	if sim.AbortClass != "" {
		r.Fail(sim.AbortClass, sim.AbortClass, "run aborted: %s", sim.AbortClass)
		return
	}
	for i := range scripts {
		for j, q := range scripts[i] {
			var want []byte
			what := ""
			switch q.kind {
			case 0, 1:
				pi, _, err := model.ECVRFProve(sk[:32], q.alpha, q.kind == 1)
				if err != nil {
					panic("harness: model prove")
				}
				want, what = pi, "proof"
			default:
				pi, _, err := model.ECVRFProve(sk[:32], q.alpha, false)
				if err != nil {
					panic("harness: model prove")
				}
				beta, reason := model.ECVRFProofToHash(pi)
				if reason != "" {
					panic("harness: model proof_to_hash: " + reason)
				}
				want, what = beta, "output"
			}
			if !bytes.Equal(outs[i][j], want) {
				r.Fail("exactness", "differs-from-model-under-concurrency", "task %d request %d (kind %d): with other provers using the same key the %s is %s, the RFC 9381 model gives %s", i, j, q.kind, what, core.Hex8(outs[i][j]), core.Hex8(want))
				return
			}
		}
	}
	if !pg.Intact() {
		r.Fail("caller-memory", "caller-buffer-modified", "the guarded buffer holding the shared private key was modified by the ECVRF entry points")
	}
}
