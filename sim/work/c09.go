package work

import (
	"crypto"
	"crypto/sha512"
	"fmt"
	"strings"

	"github.com/oasisprotocol/curve25519-voi/curve"
	"github.com/oasisprotocol/curve25519-voi/primitives/ed25519"
	"github.com/oasisprotocol/curve25519-voi/primitives/ed25519/extra/cache"

	"verifsim/core"
	"verifsim/simio"
)

// C09: validators that batch differently must not split.  A population of honest
// and Byzantine signers produces transactions; 2..4 validator nodes receive them
// in their own order with duplicates and each verifies them its own way; every
// decision is compared with the reference batch model whose per-entry decision is
// the library's own single verification.

type c09Tx struct {
	guard        *PackedGuarded
	ex           *ed25519.ExpandedPublicKey // memo: an expanded key is an object callers keep and reuse
	exTried      bool
	pk, msg, sig []byte
	opts         *ed25519.Options
	kind         string
	want         bool // single verification (documented panic = invalid)
	cofactorless bool
}

var (
	c09txs         = core.RegCounter("c09.transactions")
	c09batches     = core.RegCounter("c09.batches_verified")
	c09entries     = core.RegCounter("c09.batch_entries")
	c09big95       = core.RegCounter("c09.batches_with_95_or_more_entries")
	c09big190      = core.RegCounter("c09.batches_with_190_or_more_entries")
	c09empty       = core.RegCounter("c09.empty_batches_verified")
	c09again       = core.RegCounter("c09.batches_finished_again_without_reset")
	c09grown       = core.RegCounter("c09.batches_grown_after_a_verdict_and_finished_again")
	c09reset       = core.RegCounter("c09.verifier_reused_after_reset")
	c09forceMid    = core.RegCounter("c09.forced_non_expansion_after_additions")
	c09rx          = core.RegCounter("c09.entries_added_from_a_reused_receive_buffer")
	c09force       = core.RegCounter("c09.force_no_expansion")
	c09batchOnly   = core.RegCounter("c09.verify_batch_only_calls")
	c09boTrue      = core.RegCounter("c09.verify_batch_only_true")
	c09mixed       = core.RegCounter("c09.batches_mixing_valid_and_invalid")
	c09cofless     = core.RegCounter("c09.batches_with_cofactorless_entry")
	c09cancel      = core.RegCounter("c09.cancelling_pairs")
	c09cancelInB   = core.RegCounter("c09.cancelling_pair_in_same_batch")
	c09entPanic    = core.RegCounter("c09.entropy_error_surfaced_as_documented_panic")
	c09entErrOK    = core.RegCounter("c09.entropy_error_with_correct_results")
	c09single      = core.RegCounter("c09.single_path_decisions")
	c09expanded    = core.RegCounter("c09.expanded_path_decisions")
	c09cached      = core.RegCounter("c09.cached_path_decisions")
	c09accept      = core.RegCounter("c09.model_decisions_valid")
	c09reject      = core.RegCounter("c09.model_decisions_invalid")
	c09craftedAcc  = core.RegCounter("c09.crafted_entries_single_accepts")
	c09craftedRej  = core.RegCounter("c09.crafted_entries_single_rejects")
	c09docPanic    = core.RegCounter("c09.single_documented_panics_counted_invalid")
	c09otherPanic  = core.RegCounter("c09.single_panics_outside_documented_conditions_counted_invalid")
	c09nodes       = core.RegCounter("c09.nodes")
	c09oneOpts     = core.RegCounter("c09.nodes_passing_one_reused_options_variable")
	c09otherPreset = core.RegCounter("c09.same_tuple_under_another_preset")
	c09lru         = core.RegCounter("c09.nodes_with_real_lru")
	c09stub        = core.RegCounter("c09.nodes_with_adversarial_stub_cache")
)

func init() {
	Register(&Workload{
		Name:     "C09",
		Property: "C09",
		Phase:    "validators with different batching, add paths, caches and entropy",
		Variants: []string{"plain"},
		Rule: "per run: a pool of 2..24 transactions from honest signers and a Byzantine crafter (torsion on A and/or R, small-order A/R, non-canonical A/R, S+-delta, S+L, wrong lengths, bit flips, cancelling pairs, every preset and random flag sets, ctx/ph variants with valid and invalid option structs); 2..4 nodes each receive the stream in their own order with duplicates and verify it in tape-chosen batches (sizes 0..8, biased to 93..96 and 188..200) through tape-chosen paths (Add, AddWithOptions, AddExpanded*, cache.Verifier.Add*, ForceNoPublicKeyExpansion, capacity constructor, reuse through Reset; Verify / VerifyBatchOnly / both) with a fault-injecting entropy reader and a real LRU or an adversarial stub cache; other chunks are verified singly, through expanded keys or the caching verifier; " +
			"oracle: reference batch model over the library's own single verification; non-trivial = at least one multi-entry batch was verified and the pool contains at least one crafted or invalid transaction; distinct = distinct event-log digests",
		Real: []string{"ed25519.BatchVerifier", "ed25519.VerifyWithOptions / VerifyExpandedWithOptions", "cache.Verifier + cache.NewLRUCache", "ed25519.NewExpandedPublicKey", "internal/scalar128"},
		Stub: []string{"entropy reader (simio.Entropy: short reads, errors, degenerate content)", "cache.Cache (simio.Cache: spurious misses, dropped Puts, evictions) on some nodes", "the wire (per-node order, duplication)"},
		Run:  runC09,
	})
}

var c09presets = []*ed25519.VerifyOptions{ed25519.VerifyOptionsDefault, ed25519.VerifyOptionsStdLib, ed25519.VerifyOptionsFIPS_186_5, ed25519.VerifyOptionsZIP_215, nil}

func c09VerifyOpts(g *Gen) *ed25519.VerifyOptions {
	t := g.T
	switch t.W(4) {
	case 0:
		return c09presets[0]
	case 1, 2:
		return c09presets[t.W(len(c09presets))]
	default:
		f := t.W(32)
		return &ed25519.VerifyOptions{AllowSmallOrderA: f&1 != 0, AllowSmallOrderR: f&2 != 0, AllowNonCanonicalA: f&4 != 0, AllowNonCanonicalR: f&8 != 0, CofactorlessVerify: f&16 != 0}
	}
}

// expanded returns the transaction's expanded key; with reuse the same object is handed
// to many verifications and batches (under different options and on different nodes).
func (x *c09Tx) expanded(reuse bool) (*ed25519.ExpandedPublicKey, error) {
	if reuse && x.exTried {
		return x.ex, nil
	}
	ex, err := ed25519.NewExpandedPublicKey(x.pk)
	if reuse {
		x.ex, x.exTried = ex, true
	}
	return ex, err
}

func c09Cofactorless(o *ed25519.Options) bool { return o.Verify != nil && o.Verify.CofactorlessVerify }

// c09Pool builds the run's transaction pool.
func c09Pool(r *core.Run, g *Gen, n int) []c09Tx {
	t := g.T
	var txs []c09Tx
	mix := t.W(4) // 0: honest default; 1: honest, mixed options; 2,3: crafted mix
	add := func(pk, msg, sig []byte, o *ed25519.Options, kind string) {
		// key, message and signature of a transaction sit in one allocation (as fields of a parsed
		// packet do): slices with spare capacity; the verifiers must leave the packet alone
		pgd := NewPackedGuarded(pk, msg, sig)
		pk, msg, sig = pgd.Part(0), pgd.Part(1), pgd.Part(2)
		tx := c09Tx{pk: pk, msg: msg, sig: sig, opts: o, kind: kind, cofactorless: c09Cofactorless(o), guard: pgd}
		var ok bool
		pan, pmsg := Guard(func() { ok = ed25519.VerifyWithOptions(pk, msg, sig, o) })
		if pan {
			// A panic of single verification counts as "invalid" (that is how the batch API treats the
			// same entry).  Whether the panic is a documented one is C19's question, not C09's; the only
			// thing recorded here is whether the documented condition for it holds.
			_ = pmsg
			if c09PanicDocumented(pk, msg, o) {
				r.Count(c09docPanic)
			} else {
				r.Count(c09otherPanic)
			}
			ok = false
		}
		tx.want = ok
		if ok {
			r.Count(c09accept)
		} else {
			r.Count(c09reject)
		}
		if kind != "honest" {
			if ok {
				r.Count(c09craftedAcc)
			} else {
				r.Count(c09craftedRej)
			}
		}
		r.Count(c09txs)
		txs = append(txs, tx)
	}
	for len(txs) < n {
		vo := c09presets[0]
		if mix >= 1 {
			vo = c09VerifyOpts(g)
		}
		// signing-side variant: pure / ctx / ph, sometimes deliberately invalid
		o := &ed25519.Options{Verify: vo}
		msg := g.Msg()
		ph := false
		if mix >= 1 {
			switch t.W(10) {
			case 0:
				o.Context = string(g.Bytes(1 + t.W(20)))
			case 1:
				o.Context = strings.Repeat("c", 255)
			case 2:
				o.Hash = crypto.SHA512
				d := sha512.Sum512(msg)
				msg = d[:]
				ph = true
			case 3:
				o.Hash = crypto.SHA512
				o.Context = "ph-ctx"
				d := sha512.Sum512(msg)
				msg = d[:]
				ph = true
			}
		}
		dom2 := makeDom2(ph, o.Context)
		seed := g.Bytes(32)
		kindSel := 0
		if mix >= 2 {
			kindSel = t.W(16)
		}
		switch kindSel {
		case 0, 1, 2:
			priv := ed25519.NewKeyFromSeed(seed)
			so := &ed25519.Options{Hash: o.Hash, Context: o.Context}
			sig, err := priv.Sign(nil, msg, so)
			if err != nil {
				panic("harness: honest signing failed: " + err.Error())
			}
			add(clone(priv[32:]), msg, sig, o, "honest")
		case 3:
			pk, sig := craftSig(g, seed, 1+t.W(7), 0, 0, dom2, msg)
			add(pk, msg, sig, o, "torsion-A")
		case 4:
			pk, sig := craftSig(g, seed, 0, 1+t.W(7), 0, dom2, msg)
			add(pk, msg, sig, o, "torsion-R")
		case 5:
			pk, sig := craftSig(g, seed, 1+t.W(7), 1+t.W(7), 0, dom2, msg)
			add(pk, msg, sig, o, "torsion-A+R")
		case 6:
			pk, sig := craftSig(g, seed, 0, 0, int64(1+t.W(9)), dom2, msg)
			add(pk, msg, sig, o, "S+delta")
		case 7:
			pk, sig := craftSig(g, seed, 0, 0, 0, dom2, msg)
			s := clone(sig)
			addL(s[32:])
			add(pk, msg, s, o, "S+L")
		case 8:
			var a, rr curve.CompressedEdwardsY
			a.SetEdwardsPoint(curve.EIGHT_TORSION[t.W(8)])
			rr.SetEdwardsPoint(curve.EIGHT_TORSION[t.W(8)])
			add(clone(a[:]), msg, append(clone(rr[:]), make([]byte, 32)...), o, "small-order-A-R-S0")
		case 9:
			// non-canonical A (small order, S = 0, R = identity or torsion)
			a := ncPoints()[t.W(len(ncPoints()))]
			var rr curve.CompressedEdwardsY
			rr.SetEdwardsPoint(curve.EIGHT_TORSION[t.W(8)])
			add(clone(a), msg, append(clone(rr[:]), make([]byte, 32)...), o, "non-canonical-A")
		case 10:
			// honest key, small-order R (non-canonical or canonical encoding) with S = k*a: satisfies the
			// cofactored equation, so the decision is entirely the preset's (AllowSmallOrderR / AllowNonCanonicalR)
			rr := ncPoints()[t.W(len(ncPoints()))]
			kindName := "non-canonical-R"
			if t.W(2) == 1 {
				var c curve.CompressedEdwardsY
				c.SetEdwardsPoint(curve.EIGHT_TORSION[t.W(8)])
				rr, kindName = clone(c[:]), "small-order-R"
			}
			priv := ed25519.NewKeyFromSeed(seed)
			k := hramScalar(dom2, rr, priv[32:], msg)
			S := k.Mul(k, edSecretScalar(priv))
			sb := make([]byte, 32)
			_ = S.ToBytes(sb)
			add(clone(priv[32:]), msg, append(clone(rr), sb...), o, kindName)
		case 11:
			pk, sig := craftSig(g, seed, 0, 0, 0, dom2, msg)
			if t.W(2) == 0 {
				sig = sig[:t.W(64)]
			} else {
				pk = pk[:t.W(32)]
			}
			add(pk, msg, sig, o, "wrong-length")
		case 12:
			pk, sig := craftSig(g, seed, 0, 0, 0, dom2, msg)
			s := clone(sig)
			s[t.W(64)] ^= 1 << uint(t.W(8))
			add(pk, msg, s, o, "bit-flip")
		case 13:
			// deliberately invalid option struct
			pk, sig := craftSig(g, seed, 0, 0, 0, dom2, msg)
			bad := &ed25519.Options{Verify: vo}
			switch t.W(4) {
			case 0:
				bad.Context = strings.Repeat("x", 256)
			case 1:
				bad.Hash = crypto.SHA256
			case 2:
				bad.Hash = crypto.SHA512 // message is not a 64-byte digest (unless it happens to be)
				if len(msg) == 64 {
					msg = msg[:63]
				}
			default:
				bad.Verify = &ed25519.VerifyOptions{AllowNonCanonicalR: true, CofactorlessVerify: true}
			}
			add(pk, msg, sig, bad, "invalid-options")
		case 14:
			pk, sig := craftSig(g, seed, 0, 0, 0, dom2, append(clone(msg), 1))
			add(pk, msg, sig, o, "wrong-message")
		default:
			pk, sig := craftSig(g, seed, 0, 0, 0, dom2, msg)
			add(pk, msg, sig, o, "crafted-honest")
		}
	}
	// the same tuple again under another preset: an expanded or cached key must not
	// carry a decision made under other options (key reuse across option sets)
	if mix >= 1 && len(txs) >= 2 {
		for k := 0; k < 1+t.W(3); k++ {
			src := txs[t.W(len(txs))]
			o2 := *src.opts
			o2.Verify = c09VerifyOpts(g)
			slot := t.W(len(txs))
			saved := txs
			txs = nil
			add(src.pk, src.msg, src.sig, &o2, src.kind+"+other-preset")
			nt := txs[0]
			txs = saved
			txs[slot] = nt
			r.Count(c09otherPreset)
		}
	}
	// cancelling pair: two entries whose defects are +delta*B and -delta*B; a batch
	// equation that fails to randomise per entry accepts them together.
	if mix == 3 && n >= 2 && t.W(2) == 0 {
		d := int64(1 + t.W(5))
		o := &ed25519.Options{Verify: c09presets[t.W(4)]}
		if c09Cofactorless(o) {
			o = &ed25519.Options{Verify: c09presets[0]}
		}
		m1, m2 := g.Msg(), g.Msg()
		pk1, s1 := craftSig(g, g.Bytes(32), 0, 0, d, nil, m1)
		pk2, s2 := craftSig(g, g.Bytes(32), 0, 0, -d, nil, m2)
		txs = txs[:n-2]
		add(pk1, m1, s1, o, "cancelling+")
		add(pk2, m2, s2, o, "cancelling-")
		r.Count(c09cancel)
	}
	return txs
}

// c09PanicDocumented: the conditions under which Ed25519 verification is documented to
// panic (wrong public-key length, invalid option combination, context too long, pre-hash
// of the wrong length, unsupported hash).
func c09PanicDocumented(pk, msg []byte, o *ed25519.Options) bool {
	if len(pk) != ed25519.PublicKeySize || len(o.Context) > ed25519.ContextMaxSize {
		return true
	}
	if o.Verify != nil && o.Verify.AllowNonCanonicalR && o.Verify.CofactorlessVerify {
		return true
	}
	switch o.Hash {
	case 0:
	case crypto.SHA512:
		return len(msg) != 64
	default:
		return true
	}
	return false
}

// c09EntropyPanic: a panic raised while an entropy-reader error is being injected is the
// library's documented reaction to a failing reader, whatever its wording - unless it is
// a Go runtime error (index out of range, nil dereference), which is never documented.
func c09EntropyPanic(m string) bool { return !strings.HasPrefix(m, "runtime error") }

type c09Node struct {
	id    int
	cv    *cache.Verifier
	bv    *ed25519.BatchVerifier
	queue []int
	// some nodes keep ONE Options variable and overwrite its fields for every call, as code that fills a
	// struct from the transaction's header does; the library is handed the same pointer every time
	oneOpts bool
	ovar    ed25519.Options
	vvar    ed25519.VerifyOptions // ... and one VerifyOptions variable that the Options variable points to
	// ... and some read every transaction's key and message into ONE receive buffer each, overwritten by the
	// next transaction (a server reading requests into one buffer).  The signature is not included: a batch
	// entry with a cofactorless preset keeps the caller's signature slice until the verdict (section 8).
	rx     bool
	pkbuf  []byte
	msgbuf []byte
}

// recv returns the key and message to pass for transaction x: x's own slices, or the node's receive buffers
// holding a copy of them.
func (nd *c09Node) recv(x *c09Tx) (pk, msg []byte) {
	if !nd.rx {
		return x.pk, x.msg
	}
	if nd.pkbuf == nil {
		nd.pkbuf, nd.msgbuf = make([]byte, 0, 96), make([]byte, 0, 512)
	}
	nd.pkbuf = append(nd.pkbuf[:0], x.pk...)
	nd.msgbuf = append(nd.msgbuf[:0], x.msg...)
	if x.pk == nil {
		return nil, nd.msgbuf
	}
	return nd.pkbuf, nd.msgbuf
}

// o returns the options to pass for transaction x: x's own struct, or the node's one variable set to it.
func (nd *c09Node) o(x *c09Tx) *ed25519.Options {
	if !nd.oneOpts || x.opts == nil {
		return x.opts
	}
	nd.ovar = *x.opts
	if x.opts.Verify != nil {
		// edited in place for every call: what an earlier call was told is not what the struct says now
		nd.vvar = *x.opts.Verify
		nd.ovar.Verify = &nd.vvar
	}
	return &nd.ovar
}

func runC09(e *Env, r *core.Run) {
	t := r.T
	g := &Gen{T: t}
	npool := 2 + t.W(11)
	if t.W(4) == 0 {
		npool = 2 + t.W(23)
	}
	txs := c09Pool(r, g, npool)
	if len(r.Main.Fails()) > 0 {
		return
	}
	crafted := false
	for i, x := range txs {
		if !strings.HasPrefix(x.kind, "honest") || !x.want {
			crafted = true
		}
		r.Ev("tx%d %s want=%v cofactorless=%v pk=%s sig=%s", i, x.kind, x.want, x.cofactorless, core.Hex8(x.pk), core.Hex8(x.sig))
	}
	nnodes := 2 + t.W(3)
	multi := false
	decided := make([][]int, len(txs)) // per tx: decisions seen across nodes (0/1), for the agreement log
	fail := func(class, key, format string, args ...interface{}) { r.Fail(class, key, format, args...) }
	for ni := 0; ni < nnodes && len(r.Main.Fails()) == 0; ni++ {
		r.Count(c09nodes)
		nd := &c09Node{id: ni, oneOpts: t.W(2) == 1}
		nd.rx = t.W(2) == 1
		if nd.oneOpts {
			r.Count(c09oneOpts)
		}
		var stub *simio.Cache
		if t.W(2) == 0 {
			nd.cv = cache.NewVerifier(cache.NewLRUCache(1 + t.W(4)))
			r.Count(c09lru)
		} else {
			stub = simio.NewCache(r, 2+t.W(6))
			nd.cv = cache.NewVerifier(stub)
			r.Count(c09stub)
		}
		// arrival: own order, with duplicates; some nodes get a long stream to cross the thresholds
		slen := len(txs) + t.W(len(txs)+1)
		bigSel := t.W(10)
		if bigSel == 0 {
			slen = 93 + t.W(8)
		} else if bigSel == 1 && (e.Thorough() || t.W(3) == 0) {
			slen = 186 + t.W(16)
		}
		for i := 0; i < slen; i++ {
			nd.queue = append(nd.queue, t.W(len(txs)))
		}
		big := slen >= 90
		r.Ev("node%d stream=%d cache=%s", ni, slen, map[bool]string{true: "stub", false: "lru"}[stub != nil])
		lastEmpty := false
		for len(nd.queue) > 0 && len(r.Main.Fails()) == 0 {
			// next chunk
			n := 1 + t.W(8)
			if big && t.W(3) != 0 {
				n = len(nd.queue)
			}
			if t.W(12) == 11 && !lastEmpty { // never two empty chunks in a row: a zero tape must terminate
				n = 0
			}
			lastEmpty = n == 0
			if n > len(nd.queue) {
				n = len(nd.queue)
			}
			chunk := nd.queue[:n]
			nd.queue = nd.queue[n:]
			r.AddSteps(uint64(n) + 1)
			mode := t.W(8)
			switch {
			case mode == 0 && n > 0: // single, expanded, cached decisions entry by entry
				for _, ti := range chunk {
					x := txs[ti]
					path := t.W(3)
					var got bool
					var pan bool
					var pmsg string
					switch path {
					case 0:
						pan, pmsg = Guard(func() { got = ed25519.VerifyWithOptions(x.pk, x.msg, x.sig, nd.o(&x)) })
						r.Count(c09single)
					case 1:
						ex, err := txs[ti].expanded(t.W(2) == 1)
						if err != nil || ex == nil {
							got = false // no expanded form exists; plain verification must reject too
						} else {
							pan, pmsg = Guard(func() { got = ed25519.VerifyExpandedWithOptions(ex, x.msg, x.sig, nd.o(&x)) })
						}
						r.Count(c09expanded)
					default:
						pan, pmsg = Guard(func() { got = nd.cv.VerifyWithOptions(x.pk, x.msg, x.sig, nd.o(&x)) })
						r.Count(c09cached)
					}
					if pan {
						_ = pmsg
						got = false // a panic is a refusal; it must coincide with single verification refusing
					}
					decided[ti] = append(decided[ti], b2i(got))
					r.Ev("node%d single path=%d tx%d -> %v", ni, path, ti, got)
					if got != x.want {
						name := []string{"plain", "expanded", "cached"}[path]
						fail(name+"-vs-single", x.kind, "node%d: %s verification of tx%d (%s) = %v, single verification = %v", ni, name, ti, x.kind, got, x.want)
					}
				}
			default: // a batch
				c09Batch(r, e, nd, txs, chunk, decided, &multi)
			}
		}
	}
	// history-level agreement (implied by the per-node oracle; logged for the record)
	for ti, ds := range decided {
		for _, d := range ds {
			if (d == 1) != txs[ti].want {
				// already reported by the per-node oracle
				_ = d
			}
		}
		_ = ti
	}
	r.Nontrivial = multi && crafted
	for i := range txs {
		if txs[i].guard != nil && !txs[i].guard.Intact() && len(r.Main.Fails()) == 0 {
			r.Fail("caller-memory", "transaction-buffer-modified", "the buffer holding transaction %d (%s: key | gap | message | gap | signature | guard) was modified by verification", i, txs[i].kind)
			break
		}
	}
}

func c09Batch(r *core.Run, e *Env, nd *c09Node, txs []c09Tx, chunk []int, decided [][]int, multi *bool) {
	t := r.T
	ni := nd.id
	// verifier: new, with capacity, or reused through Reset
	switch sel := t.W(4); {
	case sel == 0 || nd.bv == nil:
		nd.bv = ed25519.NewBatchVerifier()
	case sel == 1:
		nd.bv = ed25519.NewBatchVerifierWithCapacity(t.W(2 * (len(chunk) + 1)))
	default:
		nd.bv.Reset()
		r.Count(c09reset)
	}
	bv := nd.bv
	// forced non-expansion: before the first addition, or at a tape-drawn point between additions
	// (the property quantifies over any sequence of additions, resets and forced non-expansion)
	forced := false
	forceAt := -1
	if t.W(6) == 0 {
		bv.ForceNoPublicKeyExpansion()
		forced = true
		r.Count(c09force)
	} else if len(chunk) > 0 && t.W(6) == 0 {
		forceAt = 1 + t.W(len(chunk))
	}
	basePath := t.W(5)
	var want []bool
	all := true
	anyCofless := false
	hasCancelP, hasCancelM := false, false
	addEntry := func(ti int) {
		x := txs[ti]
		path := basePath
		if basePath == 4 {
			path = t.W(4) // mixed add paths inside one batch
		}
		isDefaultOpts := x.opts.Hash == 0 && x.opts.Context == "" && x.opts.Verify == ed25519.VerifyOptionsDefault
		pk, msg := nd.recv(&x)
		switch path {
		case 0:
			if isDefaultOpts && t.W(2) == 0 {
				bv.Add(pk, msg, x.sig)
			} else {
				bv.AddWithOptions(pk, msg, x.sig, nd.o(&x))
			}
		case 1:
			ex, _ := txs[ti].expanded(t.W(2) == 1) // nil on failure: the batch must mark the entry invalid
			if isDefaultOpts && t.W(2) == 0 {
				bv.AddExpanded(ex, msg, x.sig)
			} else {
				bv.AddExpandedWithOptions(ex, msg, x.sig, nd.o(&x))
			}
		case 2:
			if isDefaultOpts && t.W(2) == 0 {
				nd.cv.Add(bv, pk, msg, x.sig)
			} else {
				nd.cv.AddWithOptions(bv, pk, msg, x.sig, nd.o(&x))
			}
		default:
			bv.AddWithOptions(pk, msg, x.sig, nd.o(&x))
		}
		if nd.rx {
			r.Count(c09rx)
		}
		want = append(want, x.want)
		all = all && x.want
		anyCofless = anyCofless || x.cofactorless
		hasCancelP = hasCancelP || x.kind == "cancelling+"
		hasCancelM = hasCancelM || x.kind == "cancelling-"
		r.Count(c09entries)
	}
	for k, ti := range chunk {
		addEntry(ti)
		if k+1 == forceAt {
			bv.ForceNoPublicKeyExpansion()
			forced = true
			r.Count(c09force)
			r.Count(c09forceMid)
		}
	}
	n := len(chunk)
	if n == 0 {
		r.Count(c09empty)
	}
	if n >= 2 {
		*multi = true
	}
	if n >= 95 {
		r.Count(c09big95)
	}
	if n >= 190 {
		r.Count(c09big190)
	}
	if hasCancelP && hasCancelM {
		r.Count(c09cancelInB)
	}
	if anyCofless {
		r.Count(c09cofless)
	}
	anyTrue, anyFalse := false, false
	for _, w := range want {
		anyTrue = anyTrue || w
		anyFalse = anyFalse || !w
	}
	if anyTrue && anyFalse {
		r.Count(c09mixed)
	}
	r.Ev("node%d batch n=%d path=%d forced=%v entries=%v", ni, n, basePath, forced, chunk)
	// finish: Verify, VerifyBatchOnly, or both in either order
	order := t.W(4) // 0 V, 1 BO, 2 V then BO, 3 BO then V
	doV := func() {
		ent := simio.NewEntropy(r, simio.EntropyCfg{Chunking: true, Degenerate: true, Errors: true, ErrWindow: 40})
		var ok bool
		var res []bool
		pan, pmsg := Guard(func() { ok, res = bv.Verify(ent) })
		r.Count(c09batches)
		if pan {
			if ent.Errored && c09EntropyPanic(pmsg) {
				r.Count(c09entPanic)
				r.Ev("node%d Verify: documented panic under an injected entropy error", ni)
				return
			}
			r.Fail("undocumented-panic", "batch-verify", "node%d BatchVerifier.Verify panicked: %s", ni, pmsg)
			return
		}
		if ent.Errored {
			r.Count(c09entErrOK)
		}
		r.Ev("node%d Verify -> %v %v", ni, ok, res)
		if n == 0 {
			if ok || res != nil {
				r.Fail("batch-model", "empty-batch", "node%d: Verify on an empty batch returned (%v, %v), want (false, nil)", ni, ok, res)
			}
			return
		}
		if len(res) != n {
			r.Fail("batch-model", "result-length", "node%d: Verify returned %d results for %d entries", ni, len(res), n)
			return
		}
		for i := range res {
			decided[chunk[i]] = append(decided[chunk[i]], b2i(res[i]))
			if res[i] != want[i] {
				x := txs[chunk[i]]
				r.Fail("batch-entry-vs-single", x.kind, "node%d: batch entry %d (tx%d %s, %d-entry batch) = %v, single verification = %v", ni, i, chunk[i], x.kind, n, res[i], want[i])
				return
			}
		}
		if ok != all {
			r.Fail("batch-model", "conjunction", "node%d: Verify overall = %v, conjunction of the per-entry single decisions = %v", ni, ok, all)
		}
	}
	doBO := func() {
		ent := simio.NewEntropy(r, simio.EntropyCfg{Chunking: true, Degenerate: true, Errors: true, ErrWindow: 40})
		var ok bool
		pan, pmsg := Guard(func() { ok = bv.VerifyBatchOnly(ent) })
		r.Count(c09batchOnly)
		if pan {
			if ent.Errored && c09EntropyPanic(pmsg) {
				r.Count(c09entPanic)
				r.Ev("node%d VerifyBatchOnly: documented panic under an injected entropy error", ni)
				return
			}
			r.Fail("undocumented-panic", "batch-only", "node%d VerifyBatchOnly panicked: %s", ni, pmsg)
			return
		}
		wantBO := n > 0 && all && !anyCofless
		r.Ev("node%d VerifyBatchOnly -> %v", ni, ok)
		if ok {
			r.Count(c09boTrue)
		}
		if ok != wantBO {
			r.Fail("batch-model", "batch-only", "node%d: VerifyBatchOnly = %v on a %d-entry batch (all individually valid: %v, cofactorless entry: %v)", ni, ok, n, all, anyCofless)
		}
	}
	switch order {
	case 0:
		doV()
	case 1:
		doBO()
	case 2:
		doV()
		if len(r.Main.Fails()) == 0 {
			doBO()
		}
	default:
		doBO()
		if len(r.Main.Fails()) == 0 {
			doV()
		}
	}
	// a batch is a value: finishing it again (a retry after a timeout upstream, a second consumer of the
	// same verifier) must give the same answers as the first time
	for again := t.W(3); again > 0 && len(r.Main.Fails()) == 0; again-- {
		r.Count(c09again)
		if t.W(2) == 0 {
			doV()
		} else {
			doBO()
		}
	}
	// ... and it can grow: entries added after a verdict belong to the next verdict like any others
	if n > 0 && n < 80 && t.W(4) == 0 && len(r.Main.Fails()) == 0 {
		chunk = append([]int(nil), chunk...)
		for k := 1 + t.W(3); k > 0; k-- {
			ti := t.W(len(txs))
			chunk = append(chunk, ti)
			addEntry(ti)
		}
		n = len(chunk)
		r.Count(c09grown)
		r.Ev("node%d batch grown to n=%d entries=%v", ni, n, chunk)
		if t.W(2) == 0 {
			doV()
		} else {
			doBO()
			if len(r.Main.Fails()) == 0 {
				doV()
			}
		}
	}
}

var _ = fmt.Sprint
