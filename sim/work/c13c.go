package work

import (
	"bytes"
	"fmt"
	"strings"

	"github.com/oasisprotocol/curve25519-voi/primitives/merlin"

	"verifsim/core"
	"verifsim/model"
	"verifsim/rt"
)

// C13 phase C: "cloned transcripts evolve independently of their origin" must also
// hold when the clones are used by different goroutines.  Several tasks clone ONE
// origin transcript (or build RNGs from it) and run their own histories, preempted
// between the statements of merlin.go and of the STROBE duplex; each task's bytes
// are compared with the model of its own history.  State shared between clones
// (a scratch buffer carried along by Clone) shows as a divergence.

var (
	c13cOps   = core.RegCounter("c13c.ops")
	c13cBytes = core.RegCounter("c13c.bytes_compared")
	c13cInOp  = core.RegCounter("c13c.switches_inside_a_transcript_operation")
	c13cKeys  = core.RegCounter("c13c.rekey_or_finalize_operations")
)

type c13cOp struct {
	kind  int // 0 append, 1 extract, 2 clone-of-own, 3 rng: rekey+finalize+read
	label string
	data  []byte
	n     int
	ent   []byte
}

func init() {
	Register(&Workload{
		Name:     "C13C",
		Property: "C13",
		Phase:    "clones of one origin transcript used by concurrent tasks",
		Variants: []string{"instrs"},
		Rule: "per run: one origin transcript with a tape-drawn history; 2..4 tasks each take Clone() / BuildRng() of that shared origin and run 1..5 operations (append, extract, clone, rekey with witnesses of 1..100 bytes, finalize, read) on their own objects; every context switch is a tape draw at a statement-level yield inside primitives/merlin or the STROBE duplex; oracle: each task's outputs equal the Merlin model of (origin history + own history), and the origin still matches its model afterwards; " +
			"non-trivial = at least one switch while the leaving task was inside a transcript operation; distinct = distinct event-log digests",
		Real: []string{"primitives/merlin, internal/strobe (statement yields spliced into merlin.go and strobe.go; Keccak-f atomic)"},
		Stub: []string{"goroutine scheduler (rt)", "entropy: fixed 32-byte strings"},
		Init: func(e *Env) error { return model.SelfTestMerlin() },
		Run:  runC13C,
	})
	// Cold start: one process per run, and no transcript exists before the tasks run - each task creates its
	// own with NewTranscript and replays the origin's history itself.  Whatever the package builds on first
	// use (a memoised initial state, a table) is then first used by concurrently scheduled tasks.
	Register(&Workload{
		Name:     "C13D",
		Property: "C13",
		Phase:    "cold start: the first transcripts of the process are created by concurrent tasks",
		Variants: []string{"instrs"},
		Rule: "one OS process per run; the scenario of phase C, except that no transcript is created before the tasks are spawned: each of the 2..4 tasks calls NewTranscript itself, replays the tape-drawn origin history on it and continues with its own 1..5 operations; every context switch is a tape draw at a statement-level yield inside primitives/merlin or internal/strobe (including strobe.New); oracle: each task's outputs equal the Merlin model of its history; " +
			"non-trivial = at least one switch while the leaving task was inside a transcript operation; distinct = distinct event-log digests",
		Real: []string{"primitives/merlin, internal/strobe (statement yields spliced into merlin.go and strobe.go; Keccak-f atomic)"},
		Stub: []string{"goroutine scheduler (rt)", "entropy: fixed 32-byte strings"},
		Init: func(e *Env) error { return model.SelfTestMerlin() },
		Run:  runC13C,
	})
	// The same scenario as a differential instrument for C06: each task's outputs are a
	// function of its own history only, so they must be identical on every backend whatever
	// the schedule.  In this registration nothing schedule-dependent is logged (tasks do not
	// log; the outputs are written after the join in task order), so the per-run digests of the
	// assembly-Keccak build and the Go-Keccak build must be equal.
	Register(&Workload{
		Name:     "C06C",
		Property: "C06",
		Phase:    "concurrent transcript users, replayed on the assembly and the Go Keccak",
		Variants: []string{"instrs", "instrs-purego"},
		Rule: "the scenario of C13 phase C (2..4 tasks on clones of one origin transcript, preempted at statement-level yields inside merlin.go, the STROBE duplex and the byte wrapper around the Keccak permutation), executed for the same seeds on the default build and on -tags purego; only schedule-independent data is logged (each task's outputs, in task order, after the join); oracle: equal per-index digests across the two builds (and each output equals the Merlin model); " +
			"non-trivial = at least one switch while the leaving task was inside a transcript operation; distinct = distinct event-log digests",
		Real: []string{"primitives/merlin, internal/strobe incl. the Keccak byte wrapper of each backend (statement yields spliced in; the 24 rounds atomic)"},
		Stub: []string{"goroutine scheduler (rt)", "entropy: fixed 32-byte strings"},
		Init: func(e *Env) error { return model.SelfTestMerlin() },
		Run:  runC13C,
	})
}

func runC13C(e *Env, r *core.Run) {
	t := r.T
	g := &Gen{T: t}
	quiet := r.Property == "C06"                                          // differential registration: log nothing schedule-dependent
	cold := r.Phase == "C13D" || strings.HasPrefix(r.Phase, "cold start") // no library call before the tasks run
	app := string(g.Bytes(t.W(12)))
	var origin, origin0 *merlin.Transcript
	if !cold {
		origin = merlin.NewTranscript(app)
	}
	mOrigin := model.MNew(app)
	type histEnt struct {
		l string
		m []byte
	}
	var hist []histEnt
	for i := 0; i < t.W(4); i++ {
		l, m := string(g.Bytes(1+t.W(8))), g.Bytes(t.W(200))
		hist = append(hist, histEnt{l, m})
		if !cold {
			origin.AppendMessage(l, m)
		}
		mOrigin.Append(l, m)
	}
	if !cold {
		origin0 = origin.Clone() // pristine copy for the sequential re-execution (C06 registration)
	}
	ntasks := 2 + t.W(3)
	scripts := make([][]c13cOp, ntasks)
	total := 0
	for i := range scripts {
		for j := 0; j < 1+t.W(5); j++ {
			op := c13cOp{kind: t.W(5), label: string(g.Bytes(1 + t.W(8)))}
			if op.kind == 4 {
				op.kind = 3
			}
			switch op.kind {
			case 0:
				op.data = g.Bytes(t.W(180))
			case 1:
				op.n = 1 + t.W(70)
			case 3:
				op.data = g.Bytes(1 + t.W(100)) // witness
				op.ent = g.Bytes(32)
				op.n = 1 + t.W(64)
			}
			scripts[i] = append(scripts[i], op)
			total++
		}
	}
	r.Ev("cfg tasks=%d ops=%d", ntasks, total)
	sim := e.Sim
	sim.Begin(rt.Config{Draw: func(n int) int { return t.Draw(core.SS, n) }, EstYields: total * 400, MaxYields: uint64(total*400000 + 100000)})
	logs := make([]*core.Log, ntasks)
	outs := make([][][]byte, ntasks)
	for i := range logs {
		logs[i] = r.NewLog(i)
		outs[i] = make([][]byte, len(scripts[i]))
	}
	sim.OnPanic = func(task int, val interface{}, stack []byte) {
		msg := fmt.Sprint(val)
		logs[task].Fail("panic", normPanic(msg), "task %d panicked: %s", task, msg)
	}
	for i := range scripts {
		i := i
		sim.Spawn(func(task int) {
			l := logs[i]
			rt.EnterOp()
			var mine *merlin.Transcript
			if cold {
				mine = merlin.NewTranscript(app) // among the first transcripts of the process
				for _, h := range hist {
					mine.AppendMessage(h.l, h.m)
				}
			} else {
				mine = origin.Clone() // every task clones the one shared origin
			}
			rt.ExitOp()
			for j, op := range scripts[i] {
				rt.Yield(3905)
				r.Count(c13cOps)
				rt.EnterOp()
				switch op.kind {
				case 0:
					mine.AppendMessage(op.label, op.data)
				case 1:
					out := make([]byte, op.n)
					mine.ExtractBytes(out, op.label)
					outs[i][j] = out
				case 2:
					mine = mine.Clone()
				default:
					rd, err := mine.BuildRng().RekeyWithWitnessBytes(op.label, op.data).Finalize(NewFixedReader(op.ent))
					if err == nil {
						out := make([]byte, op.n)
						_, _ = rd.Read(out)
						outs[i][j] = out
					}
					r.Count(c13cKeys)
				}
				rt.ExitOp()
				if !quiet {
					l.Ev("op %d kind=%d -> %s", j, op.kind, core.H(outs[i][j]))
				}
			}
		})
	}
	sim.Run()
	r.AddSteps(sim.Yields)
	r.CountN(c13cInOp, int64(sim.SwitchInOp))
	r.Nontrivial = sim.SwitchInOp >= 1
	if quiet {
		// C06: log what each task's script gives when executed ALONE on this build (schedule-
		// independent, must be equal on every backend), and report separately whether the concurrent
		// execution deviated from it on this build.  The driver keeps such a deviation only if it is
		// backend-specific (it occurs on one build and never on the other); a deviation that occurs
		// on every build is a defect in shared code, which C13 / C18 report, not C06.
		deviates := false
		for i := range scripts {
			seq := c13cSequential(origin0, scripts[i])
			for j := range seq {
				r.Ev("task %d op %d -> %s", i, j, core.Hex8(seq[j]))
				if !bytes.Equal(seq[j], outs[i][j]) {
					deviates = true
				}
			}
		}
		if deviates {
			r.Main.FailSilently("backend-concurrency", "deviates-from-sequential", "on this build the outputs of concurrent transcript users differ from what each user's history gives alone")
		}
	} else {
		r.Ev("sched policy=%d yields=%d switches=%d inop=%d hash=%x", sim.Policy(), sim.Yields, sim.Switches, sim.SwitchInOp, sim.SchedHash)
	}
	if sim.AbortClass != "" {
		r.Fail(sim.AbortClass, sim.AbortClass, "run aborted: %s", sim.AbortClass)
		return
	}
	if quiet {
		return // C06: the oracle is the comparison of digests across builds
	}
	// models, sequentially
	for i := range scripts {
		m := mOrigin.Clone()
		for j, op := range scripts[i] {
			var want []byte
			switch op.kind {
			case 0:
				m.Append(op.label, op.data)
			case 1:
				want = m.Challenge(op.label, op.n)
			case 2:
				m = m.Clone()
			default:
				rg := m.BuildRng()
				rg.Rekey(op.label, op.data)
				rg.Finalize(op.ent)
				want = rg.Read(op.n)
			}
			if want != nil {
				r.CountN(c13cBytes, int64(len(want)))
				if !bytes.Equal(outs[i][j], want) {
					what := "on its own clone of the shared origin"
					if cold {
						what = "on the transcript it created itself, among the first of the process,"
					}
					r.Fail("model-divergence", "concurrent-clone", "task %d operation %d (kind %d) %s produced %s; the Merlin model of its history gives %s", i, j, op.kind, what, core.Hex8(outs[i][j]), core.Hex8(want))
					return
				}
			}
		}
	}
	if cold {
		return // there is no shared origin in the cold-start phase
	}
	a := make([]byte, 32)
	origin.ExtractBytes(a, "origin-final")
	if w := mOrigin.Challenge("origin-final", 32); !bytes.Equal(a, w) {
		r.Fail("model-divergence", "origin-disturbed-by-clones", "after concurrent use of its clones the origin transcript's challenge is %s, model %s", core.Hex8(a), core.Hex8(w))
	}
}

// c13cSequential executes one task's script alone on a clone of the origin.
func c13cSequential(origin *merlin.Transcript, script []c13cOp) [][]byte {
	out := make([][]byte, len(script))
	mine := origin.Clone()
	for j, op := range script {
		switch op.kind {
		case 0:
			mine.AppendMessage(op.label, op.data)
		case 1:
			b := make([]byte, op.n)
			mine.ExtractBytes(b, op.label)
			out[j] = b
		case 2:
			mine = mine.Clone()
		default:
			rd, err := mine.BuildRng().RekeyWithWitnessBytes(op.label, op.data).Finalize(NewFixedReader(op.ent))
			if err == nil {
				b := make([]byte, op.n)
				_, _ = rd.Read(b)
				out[j] = b
			}
		}
	}
	return out
}

// FixedReader serves a fixed byte string, then zeros; never fails.
type FixedReader struct {
	b   []byte
	off int
}

func NewFixedReader(b []byte) *FixedReader { return &FixedReader{b: b} }

func (f *FixedReader) Read(p []byte) (int, error) {
	for i := range p {
		if f.off < len(f.b) {
			p[i] = f.b[f.off]
		} else {
			p[i] = 0
		}
		f.off++
	}
	return len(p), nil
}
