package work

import (
	"container/list"
	"crypto/sha512"
	"fmt"
	"reflect"
	"regexp"
	"strings"
	"time"
	"unsafe"

	"github.com/anishathalye/porcupine"

	"github.com/oasisprotocol/curve25519-voi/curve"
	"github.com/oasisprotocol/curve25519-voi/primitives/ed25519"
	"github.com/oasisprotocol/curve25519-voi/primitives/ed25519/extra/cache"

	"verifsim/core"
	"verifsim/model"
	"verifsim/rt"
)

// ---- shared key pool -------------------------------------------------------

const (
	poolKeys = 8
	poolVals = 3
)

type keyPool struct {
	priv [poolKeys]ed25519.PrivateKey
	pub  [poolKeys]ed25519.PublicKey
	comp [poolKeys]curve.CompressedEdwardsY
	vals [poolKeys][poolVals]*ed25519.ExpandedPublicKey
}

var thePool *keyPool

func pool() *keyPool {
	if thePool != nil {
		return thePool
	}
	p := &keyPool{}
	for i := 0; i < poolKeys; i++ {
		seed := sha512.Sum512_256([]byte{'k', 'e', 'y', byte(i)})
		p.priv[i] = ed25519.NewKeyFromSeed(seed[:])
		p.pub[i] = ed25519.PublicKey(p.priv[i][32:])
		if _, err := p.comp[i].SetBytes(p.pub[i]); err != nil {
			panic(err)
		}
		for j := 0; j < poolVals; j++ {
			e, err := ed25519.NewExpandedPublicKey(p.pub[i])
			if err != nil {
				panic(err)
			}
			p.vals[i][j] = e
		}
	}
	thePool = p
	return p
}

// identify maps a returned pointer to (key, value) of the pool.
func (p *keyPool) identify(e *ed25519.ExpandedPublicKey) (int, int) {
	if e == nil {
		return -1, -1
	}
	for i := range p.vals {
		for j := range p.vals[i] {
			if p.vals[i][j] == e {
				return i, j
			}
		}
	}
	return -2, -2
}

// ---- counters --------------------------------------------------------------

var (
	cA_ops        = core.RegCounter("c18a.ops")
	cA_switchInOp = core.RegCounter("c18a.switches_inside_cache_op")
	cA_porcUnk    = core.RegCounter("c18a.porcupine_unknown")
	cA_structural = core.RegCounter("c18a.structural_checks")
	cA_structSkip = core.RegCounter("c18a.structural_layout_unknown")
	cA_hits       = core.RegCounter("c18a.get_hits")
	cA_misses     = core.RegCounter("c18a.get_misses")
	cA_polUniform = core.RegCounter("c18a.policy_uniform")
	cA_polSticky  = core.RegCounter("c18a.policy_sticky")
	cA_polPCT     = core.RegCounter("c18a.policy_pct")
	cA_cap1       = core.RegCounter("c18a.capacity_1_runs")
)

type lruOp struct {
	kind int // 0 get, 1 put
	key  int
	val  int
}

var digitsRe = regexp.MustCompile(`[0-9]+`)

func normPanic(msg string) string {
	msg = digitsRe.ReplaceAllString(msg, "N")
	if i := strings.IndexByte(msg, '\n'); i >= 0 {
		msg = msg[:i]
	}
	if len(msg) > 80 {
		msg = msg[:80]
	}
	return msg
}

func init() {
	Register(&Workload{
		Name:     "C18A",
		Property: "C18",
		Phase:    "A: LRU cache as a concurrent object",
		Variants: []string{"instr"},
		Rule: "per run: capacity 1..3, 2..4 keys more than fit, 2..4 tasks (thorough 2..6) x 1..6 ops (thorough 1..12) of Get/Put drawn from the tape with one of five workload biases; " +
			"every context switch is a tape draw at a statement-level yield inside lru.go/cache.go; history (invoke/return stamped with the global event sequence) + final sequential Get of every key is checked by porcupine against a sequential LRU model; " +
			"non-trivial = at least one context switch happened while the leaving task was inside a cache operation; distinct = distinct SHA-256 of the full event log (a lower bound is counted through a bitmap)",
		Real: []string{"primitives/ed25519/extra/cache (lru.go, cache.go; statement yields spliced in, sync->simsync)", "ed25519.NewExpandedPublicKey", "container/list"},
		Stub: []string{"goroutine scheduler (rt: serial token hand-off)", "sync.Mutex blocking (simsync: TryLock + park)"},
		Init: func(e *Env) error { return model.LRUSelfTest() },
		Run:  runC18A,
	})
}

func runC18A(e *Env, r *core.Run) {
	p := pool()
	t := r.T
	bias := t.W(5) // 0 uniform, 1 read-heavy, 2 touch-then-evict, 3 same-key put storm, 4 capacity 1
	capa := 1 + t.W(3)
	if bias == 4 {
		capa = 1
	}
	nkeys := capa + 1 + t.W(3)
	if nkeys > poolKeys {
		nkeys = poolKeys
	}
	maxTasks, maxOps := 4, 6
	if e.Thorough() {
		maxTasks, maxOps = 6, 12
	}
	ntasks := 2 + t.W(maxTasks-1)
	scripts := make([][]lruOp, ntasks)
	total := 0
	for i := range scripts {
		n := 1 + t.W(maxOps)
		for j := 0; j < n; j++ {
			var op lruOp
			switch bias {
			case 1:
				op.kind = b2i(t.W(4) == 3)
				op.key = t.W(nkeys)
			case 2:
				// tasks alternate roles: even tasks touch low keys, odd tasks insert high keys
				if i%2 == 0 {
					op.kind = b2i(t.W(3) == 2)
					op.key = t.W(capa)
				} else {
					op.kind = b2i(t.W(4) != 3)
					op.key = capa + t.W(nkeys-capa)
					if t.W(4) == 3 {
						op.key = t.W(nkeys)
					}
				}
			case 3:
				op.kind = b2i(t.W(4) != 3)
				op.key = t.W(2)
			default:
				op.kind = t.W(2)
				op.key = t.W(nkeys)
			}
			op.val = t.W(poolVals)
			scripts[i] = append(scripts[i], op)
			total++
		}
	}
	if capa == 1 {
		r.Count(cA_cap1)
	}
	r.Ev("cfg bias=%d cap=%d keys=%d tasks=%d ops=%d", bias, capa, nkeys, ntasks, total)

	c := cache.NewLRUCache(capa)
	probe := newLRUProbe(c)

	sim := e.Sim
	sim.Begin(rt.Config{Draw: func(n int) int { return t.Draw(core.SS, n) }, EstYields: total * 12, MaxYields: uint64(total*12*50 + 2000)})
	switch sim.Policy() {
	case rt.PolUniform:
		r.Count(cA_polUniform)
	case rt.PolSticky:
		r.Count(cA_polSticky)
	default:
		r.Count(cA_polPCT)
	}
	logs := make([]*core.Log, ntasks)
	hist := make([][]porcupine.Operation, ntasks)
	for i := range scripts {
		logs[i] = r.NewLog(i)
	}
	sim.OnPanic = func(task int, val interface{}, stack []byte) {
		msg := fmt.Sprint(val)
		logs[task].Fail("panic", normPanic(msg), "task %d panicked: %s", task, msg)
	}
	structural := func(l *core.Log) {
		if probe == nil {
			return
		}
		r.Count(cA_structural)
		if key, detail := probe.check(capa); key != "" {
			if key == "layout" {
				r.Count(cA_structSkip)
				probe = nil
				return
			}
			l.Fail("structural", key, "%s", detail)
		}
	}
	for i := range scripts {
		i := i
		sim.Spawn(func(task int) {
			l := logs[i]
			// Each task keeps ONE key buffer and overwrites it for every call, as a caller that
			// decodes keys into a scratch variable does: the cache must not retain the pointer.
			var kbuf curve.CompressedEdwardsY
			for _, op := range scripts[i] {
				rt.Yield(3900)
				structural(l)
				kbuf = p.comp[op.key]
				var in model.LRUIn
				var out model.LRUOut
				in = model.LRUIn{Kind: op.kind, Key: op.key, Val: op.val}
				var call, ret uint64
				if op.kind == 0 {
					call = l.Ev("invoke Get(k%d)", op.key)
					rt.EnterOp()
					got := c.Get(&kbuf)
					rt.ExitOp()
					k, v := p.identify(got)
					out = model.LRUOut{Key: k, Val: v}
					ret = l.Ev("return Get(k%d) -> k%d/v%d", op.key, k, v)
					if k == -2 {
						l.Fail("foreign-value", "get-returned-unknown-pointer", "Get(k%d) returned a pointer no Put ever stored", op.key)
					} else if k >= 0 && k != op.key {
						l.Fail("foreign-value", "get-returned-other-key", "Get(k%d) returned the expanded key of k%d", op.key, k)
					}
					if k >= 0 {
						r.Count(cA_hits)
					} else {
						r.Count(cA_misses)
					}
				} else {
					call = l.Ev("invoke Put(k%d,v%d)", op.key, op.val)
					rt.EnterOp()
					c.Put(&kbuf, p.vals[op.key][op.val])
					rt.ExitOp()
					for j := range kbuf {
						kbuf[j] = 0xEE // the caller reuses its buffer
					}
					ret = l.Ev("return Put(k%d,v%d)", op.key, op.val)
				}
				r.Count(cA_ops)
				hist[i] = append(hist[i], porcupine.Operation{ClientId: i, Input: in, Call: int64(call), Output: out, Return: int64(ret)})
				structural(l)
			}
		})
	}
	sim.Run()
	r.AddSteps(sim.Yields)
	r.CountN(cA_switchInOp, int64(sim.SwitchInOp))
	r.Nontrivial = sim.SwitchInOp > 0
	r.Ev("sched policy=%d yields=%d switches=%d inop=%d hash=%x", sim.Policy(), sim.Yields, sim.Switches, sim.SwitchInOp, sim.SchedHash)
	if sim.AbortClass != "" {
		r.Fail(sim.AbortClass, sim.AbortClass, "run aborted: %s after %d yields", sim.AbortClass, sim.Yields)
		return
	}
	var all []porcupine.Operation
	for i := range hist {
		all = append(all, hist[i]...)
	}
	// final state, read sequentially at quiescence and appended to the same history.
	// The reads run as a single task under the scheduler so that a mutex left held
	// by a finished operation is reported as a deadlock instead of hanging the worker.
	pk, msg, ab := SerialInSim(e, func() {
		for k := 0; k < nkeys; k++ {
			call := r.Ev("invoke final Get(k%d)", k)
			got := c.Get(&p.comp[k])
			kk, vv := p.identify(got)
			ret := r.Ev("return final Get(k%d) -> k%d/v%d", k, kk, vv)
			all = append(all, porcupine.Operation{ClientId: ntasks, Input: model.LRUIn{Kind: 0, Key: k}, Call: int64(call), Output: model.LRUOut{Key: kk, Val: vv}, Return: int64(ret)})
		}
	})
	if ab != "" {
		r.Fail(ab, ab+"-at-quiescence", "after all tasks finished a sequential Get could not proceed: %s", ab)
		return
	}
	if pk {
		r.Fail("panic", normPanic(msg), "final read panicked: %s", msg)
		return
	}
	structural(r.Main)
	if len(r.Main.Fails())+failsOf(logs) > 0 {
		return
	}
	res := porcupine.CheckOperationsTimeout(model.LRUModel(capa), all, 10*time.Second)
	switch res {
	case porcupine.Illegal:
		r.Fail("linearizability", "lru-history", "no sequential LRU(capacity=%d) execution explains the %d-operation history", capa, len(all))
	case porcupine.Unknown:
		r.Count(cA_porcUnk)
	}
}

func failsOf(ls []*core.Log) int {
	n := 0
	for _, l := range ls {
		n += len(l.Fails())
	}
	return n
}

// ---- structural probe (best effort, by reflection) ----------------------------

type lruProbe struct {
	v        reflect.Value // the struct
	store    reflect.Value
	lst      *list.List
	capacity reflect.Value
	tryLock  func() bool
	unlock   func()
}

func field(v reflect.Value, name string) reflect.Value {
	f := v.FieldByName(name)
	if !f.IsValid() {
		return f
	}
	return reflect.NewAt(f.Type(), unsafe.Pointer(f.UnsafeAddr())).Elem()
}

func newLRUProbe(c cache.Cache) (p *lruProbe) {
	defer func() {
		if recover() != nil {
			p = nil
		}
	}()
	v := reflect.ValueOf(c)
	if v.Kind() != reflect.Ptr || v.Elem().Kind() != reflect.Struct {
		return nil
	}
	v = v.Elem()
	pr := &lruProbe{v: v}
	pr.store = field(v, "store")
	l := field(v, "list")
	pr.capacity = field(v, "capacity")
	mu := field(v, "Mutex")
	if !pr.store.IsValid() || !l.IsValid() || !pr.capacity.IsValid() || !mu.IsValid() {
		return nil
	}
	if pr.store.Kind() != reflect.Map || pr.capacity.Kind() != reflect.Int {
		return nil
	}
	lp, ok := l.Addr().Interface().(*list.List)
	if !ok {
		return nil
	}
	pr.lst = lp
	fr, ok := mu.Addr().Interface().(interface {
		ProbeTryLock() bool
		ProbeUnlock()
	})
	if !ok {
		return nil
	}
	pr.tryLock, pr.unlock = fr.ProbeTryLock, fr.ProbeUnlock
	return pr
}

// check returns ("", "") if consistent or not checkable right now.
func (p *lruProbe) check(capa int) (key, detail string) {
	defer func() {
		if recover() != nil {
			key, detail = "layout", ""
		}
	}()
	// the probe holds the cache's own mutex while it looks (no yield inside)
	if !p.tryLock() {
		return "", ""
	}
	defer p.unlock()
	n := p.store.Len()
	ll := p.lst.Len()
	if n != ll {
		return "index-list-length-mismatch", fmt.Sprintf("with the mutex free: len(index)=%d but recency list has %d elements", n, ll)
	}
	if n > capa {
		return "over-capacity", fmt.Sprintf("with the mutex free: %d entries in a cache of capacity %d", n, capa)
	}
	cnt := 0
	for el := p.lst.Front(); el != nil; el = el.Next() {
		cnt++
		if cnt > ll+1 {
			return "list-corrupt", "recency list longer than its Len()"
		}
		ev := reflect.ValueOf(el.Value)
		if ev.Kind() != reflect.Ptr || ev.IsNil() {
			return "layout", ""
		}
		ent := ev.Elem()
		pkf := field(ent, "publicKey")
		elf := field(ent, "element")
		if !pkf.IsValid() || !elf.IsValid() {
			return "layout", ""
		}
		epk, ok := pkf.Interface().(*ed25519.ExpandedPublicKey)
		if !ok || epk == nil {
			return "layout", ""
		}
		if elp, ok := elf.Interface().(*list.Element); !ok {
			return "layout", ""
		} else if elp != el {
			return "entry-element-backpointer", "a list element's entry does not point back to that element"
		}
		ck := epk.CompressedY()
		mv := p.store.MapIndex(reflect.ValueOf(ck))
		if !mv.IsValid() {
			return "list-entry-not-indexed", "an entry on the recency list is not in the index under its own key"
		}
		if mv.Pointer() != ev.Pointer() {
			return "index-points-elsewhere", "the index maps a key to a different entry than the one on the recency list"
		}
	}
	if cnt != ll {
		return "list-corrupt", "recency list walk disagrees with Len()"
	}
	return "", ""
}
