package work

import (
	"github.com/oasisprotocol/curve25519-voi/curve"
	"github.com/oasisprotocol/curve25519-voi/curve/scalar"

	"verifsim/core"
)

// In-place (aliased) forms: the receiver is also one of the operands.  Every
// arithmetic entry point of curve and curve/scalar documents value semantics
// ("sets p = ..., and returns p"), so p.Op(p, q) must give what a fresh receiver
// gives - on every backend; a backend that clears or overwrites its receiver
// before it has read all of its inputs differs from the others only here.

var c06fAlias = core.RegCounter("c06.family.aliased_receivers")

func (c *c06) famAliased() {
	t := c.t
	cp := func(p *curve.EdwardsPoint) *curve.EdwardsPoint { return curve.NewEdwardsPoint().Set(p) }
	cr := func(p *curve.RistrettoPoint) *curve.RistrettoPoint { return curve.NewRistrettoPoint().Set(p) }
	cs := func(s *scalar.Scalar) *scalar.Scalar { return scalar.New().Set(s) }

	// ---- Edwards ----
	p, q, w := cp(c.ed()), c.ed(), c.ed()
	a, b := c.sc(), c.sc()
	x := cp(p)
	c.op("alias.ed.Add(p,p,q)", "-> %s", c06he(x.Add(x, q)))
	x = cp(p)
	c.op("alias.ed.Add(p,q,p)", "-> %s", c06he(x.Add(q, x)))
	x = cp(p)
	c.op("alias.ed.Add(p,p,p)", "-> %s", c06he(x.Add(x, x)))
	x = cp(p)
	c.op("alias.ed.Sub(p,q,p)", "-> %s", c06he(x.Sub(q, x)))
	x = cp(p)
	c.op("alias.ed.Neg(p,p)", "-> %s", c06he(x.Neg(x)))
	x = cp(p)
	c.op("alias.ed.MulByCofactor(p,p)", "-> %s", c06he(x.MulByCofactor(x)))
	x = cp(p)
	c.op("alias.ed.Mul(p,p,a)", "-> %s", c06he(x.Mul(x, a)))
	x = cp(p)
	c.op("alias.ed.DoubleScalarMulBasepointVartime(a,p,b)->p", "-> %s", c06he(x.DoubleScalarMulBasepointVartime(a, x, b)))
	x = cp(p)
	c.op("alias.ed.TripleScalarMulBasepointVartime(a,q,b,p)->p", "-> %s", c06he(x.TripleScalarMulBasepointVartime(a, q, b, x)))
	x = cp(p)
	c.op("alias.ed.TripleScalarMulBasepointVartime(a,p,b,w)->p", "-> %s", c06he(x.TripleScalarMulBasepointVartime(a, x, b, w)))
	x = cp(p)
	c.op("alias.ed.Sum(p in values)", "-> %s", c06he(x.Sum([]*curve.EdwardsPoint{q, x, w})))
	// multiscalar with the receiver among the points, at a few lengths (constant-time and vartime,
	// Straus and - rarely - Pippenger sizes)
	for k := 0; k < 2; k++ {
		n := 1 + t.W(6)
		if t.W(12) == 11 {
			n = 190 + t.W(4)
		}
		ss := c.scs(n)
		ps := c.edMany(n)
		at := t.W(n)
		x = cp(p)
		ps[at] = x
		c.op("alias.ed.MultiscalarMul(receiver among points)", "n=%d at=%d -> %s", n, at, c06he(x.MultiscalarMul(ss, ps)))
		x = cp(p)
		ps[at] = x
		c.op("alias.ed.MultiscalarMulVartime(receiver among points)", "n=%d at=%d -> %s", n, at, c06he(x.MultiscalarMulVartime(ss, ps)))
	}
	{
		ep := curve.NewExpandedEdwardsPoint(q)
		x = cp(p)
		c.op("alias.ed.ExpandedTripleScalarMulBasepointVartime(C=receiver)", "-> %s", c06he(x.ExpandedTripleScalarMulBasepointVartime(a, ep, b, x)))
		n := 1 + t.W(4)
		ds, dp := c.scs(n), c.edMany(n)
		x = cp(p)
		dp[t.W(n)] = x
		c.op("alias.ed.ExpandedMultiscalarMulVartime(receiver among dynamic points)", "n=%d -> %s", n, c06he(x.ExpandedMultiscalarMulVartime([]*scalar.Scalar{a}, []*curve.ExpandedEdwardsPoint{ep}, ds, dp)))
	}
	{
		var m curve.MontgomeryPoint
		m.SetEdwards(p)
		m.Mul(&m, a)
		c.op("alias.mont.Mul(m,m,a)", "-> %s", core.Hex8(m[:]))
	}
	// ---- object reuse: an expanded point copied by value, then re-set, then both used ----
	{
		ep := curve.NewExpandedEdwardsPoint(p)
		snap := *ep // value copy: must stay the expansion of p
		ep.SetEdwardsPoint(q)
		var o1, o2 curve.EdwardsPoint
		o1.ExpandedDoubleScalarMulBasepointVartime(a, &snap, b)
		o2.ExpandedDoubleScalarMulBasepointVartime(a, ep, b)
		c.op("reuse.ed.ExpandedEdwardsPoint(copy, SetEdwardsPoint, use both)", "-> %s %s point=%s", c06he(&o1), c06he(&o2), c06he(snap.Point()))
		var o3 curve.EdwardsPoint
		o3.ExpandedMultiscalarMulVartime([]*scalar.Scalar{a, b}, []*curve.ExpandedEdwardsPoint{&snap, ep}, nil, nil)
		c.op("reuse.ed.ExpandedMultiscalarMulVartime(copy and re-set original)", "-> %s", c06he(&o3))
		var z curve.ExpandedEdwardsPoint // zero value used as a receiver, twice
		z.SetEdwardsPoint(p)
		z.SetEdwardsPoint(w)
		var o4 curve.EdwardsPoint
		o4.ExpandedTripleScalarMulBasepointVartime(a, &z, b, q)
		c.op("reuse.ed.ExpandedEdwardsPoint(zero value set twice)", "-> %s", c06he(&o4))
	}
	{
		rp0, rq0 := c.ris(), c.ris()
		ep := curve.NewExpandedRistrettoPoint(rp0)
		snap := *ep
		ep.SetRistrettoPoint(rq0)
		var o1, o2 curve.RistrettoPoint
		o1.ExpandedDoubleScalarMulBasepointVartime(a, &snap, b)
		o2.ExpandedDoubleScalarMulBasepointVartime(a, ep, b)
		c.op("reuse.ris.ExpandedRistrettoPoint(copy, SetRistrettoPoint, use both)", "-> %s %s", c06hr(&o1), c06hr(&o2))
	}
	// ConditionalSelect with the receiver as either argument, both choices (the results are plain values: p or q)
	for ch := 0; ch < 2; ch++ {
		x = cp(p)
		x.ConditionalSelect(x, q, ch)
		x2 := cp(p)
		x2.ConditionalSelect(q, x2, ch)
		x3 := cp(p)
		x3.ConditionalSelect(x3, x3, ch)
		c.op("alias.ed.ConditionalSelect(p,p,q / p,q,p / p,p,p)", "choice=%d -> %s %s %s", ch, c06he(x), c06he(x2), c06he(x3))
	}
	// ---- Ristretto ----
	rp, rq := cr(c.ris()), c.ris()
	y := cr(rp)
	c.op("alias.ris.Add(p,p,q)", "-> %s", c06hr(y.Add(y, rq)))
	y = cr(rp)
	c.op("alias.ris.Sub(p,q,p)", "-> %s", c06hr(y.Sub(rq, y)))
	y = cr(rp)
	c.op("alias.ris.Neg(p,p)", "-> %s", c06hr(y.Neg(y)))
	y = cr(rp)
	c.op("alias.ris.Mul(p,p,a)", "-> %s", c06hr(y.Mul(y, a)))
	y = cr(rp)
	c.op("alias.ris.DoubleScalarMulBasepointVartime(a,p,b)->p", "-> %s", c06hr(y.DoubleScalarMulBasepointVartime(a, y, b)))
	y = cr(rp)
	c.op("alias.ris.TripleScalarMulBasepointVartime(a,q,b,p)->p", "-> %s", c06hr(y.TripleScalarMulBasepointVartime(a, rq, b, y)))
	{
		n := 1 + t.W(6)
		ss, ps := c.scs(n), c.risMany(n)
		at := t.W(n)
		y = cr(rp)
		ps[at] = y
		c.op("alias.ris.MultiscalarMul(receiver among points)", "n=%d at=%d -> %s", n, at, c06hr(y.MultiscalarMul(ss, ps)))
		y = cr(rp)
		ps[at] = y
		c.op("alias.ris.MultiscalarMulVartime(receiver among points)", "n=%d at=%d -> %s", n, at, c06hr(y.MultiscalarMulVartime(ss, ps)))
	}
	for ch := 0; ch < 2; ch++ {
		y1 := cr(rp)
		y1.ConditionalSelect(y1, rq, ch)
		y2 := cr(rp)
		y2.ConditionalSelect(rq, y2, ch)
		c.op("alias.ris.ConditionalSelect(p,p,q / p,q,p)", "choice=%d -> %s %s", ch, c06hr(y1), c06hr(y2))
		z1, z2 := cs(a), cs(a)
		z1.ConditionalSelect(z1, b, ch)
		z2.ConditionalSelect(b, z2, ch)
		c.op("alias.sc.ConditionalSelect(s,s,t / s,t,s)", "choice=%d -> %s %s", ch, c06hs(z1), c06hs(z2))
	}
	// ---- scalars ----
	s1, s2 := c.sc(), c.sc()
	z := cs(s1)
	c.op("alias.sc.Add(s,s,t)", "-> %s", c06hs(z.Add(z, s2)))
	z = cs(s1)
	c.op("alias.sc.Sub(s,t,s)", "-> %s", c06hs(z.Sub(s2, z)))
	z = cs(s1)
	c.op("alias.sc.Mul(s,s,s)", "-> %s", c06hs(z.Mul(z, z)))
	z = cs(s1)
	c.op("alias.sc.Neg(s,s)", "-> %s", c06hs(z.Neg(z)))
	z = cs(s1)
	c.op("alias.sc.Reduce(s,s)", "-> %s", c06hs(z.Reduce(z)))
	z = cs(c.scNZ())
	c.op("alias.sc.Invert(s,s)", "-> %s", c06hs(z.Invert(z)))
	z = cs(s1)
	c.op("alias.sc.Sum(s in values)", "-> %s", c06hs(z.Sum([]*scalar.Scalar{s2, z, s2})))
	z = cs(s1)
	c.op("alias.sc.Product(s in values)", "-> %s", c06hs(z.Product([]*scalar.Scalar{s2, z})))
}
