package work

import (
	"bytes"
	"crypto/sha256"
	"crypto/sha512"
	"hash"
	"math/big"
	"strings"

	"golang.org/x/crypto/blake2b"
	"golang.org/x/crypto/sha3"

	"github.com/oasisprotocol/curve25519-voi/primitives/sr25519"

	"verifsim/core"
	"verifsim/model"
	"verifsim/simio"
)

// C12: sr25519 signers, a corrupting / Byzantine wire and verifiers (single and
// batch), decided against an independent schnorrkel protocol model.

var (
	c12keyRoute     [6]int
	c12keyGenErr    = core.RegCounter("c12.key_generation_with_injected_reader_error")
	c12unclamped    = core.RegCounter("c12.ed25519_bytes_not_clamped_rejected")
	c12srcBytes     = core.RegCounter("c12.transcript_from_bytes")
	c12srcHash      = core.RegCounter("c12.transcript_from_hash")
	c12srcXOF       = core.RegCounter("c12.transcript_from_xof")
	c12xofErr       = core.RegCounter("c12.xof_read_error_surfaced_as_documented_panic")
	c12hashTwin     = core.RegCounter("c12.caller_hash_compared_with_untouched_twin")
	c12signs        = core.RegCounter("c12.signatures_compared_with_model")
	c12signErr      = core.RegCounter("c12.sign_with_injected_reader_error")
	c12verifyOK     = core.RegCounter("c12.honest_tuples_verified")
	c12wire         = core.RegCounter("c12.wire_alterations")
	c12alt          = map[string]int{}
	c12decRej       = core.RegCounter("c12.altered_artifact_rejected_by_decoder")
	c12verRej       = core.RegCounter("c12.altered_tuple_rejected_by_verify")
	c12remarshal    = core.RegCounter("c12.accepted_artifacts_remarshalled")
	c12batches      = core.RegCounter("c12.batches_verified")
	c12batchEnt     = core.RegCounter("c12.batch_entries")
	c12batchMixed   = core.RegCounter("c12.batches_mixing_valid_and_invalid")
	c12batchBig     = core.RegCounter("c12.batches_with_95_or_more_entries")
	c12grown        = core.RegCounter("c12.batches_grown_after_a_verdict_and_finished_again")
	c12again        = core.RegCounter("c12.batches_finished_again_without_reset")
	c12batchReset   = core.RegCounter("c12.batch_verifier_reused_after_reset")
	c12batchEmpty   = core.RegCounter("c12.empty_batches")
	c12batchOnly    = core.RegCounter("c12.verify_batch_only_calls")
	c12batchPanic   = core.RegCounter("c12.batch_entropy_error_surfaced_as_documented_panic")
	c12cancel       = core.RegCounter("c12.cancelling_pairs_in_batch")
	c12kpUnchanged  = core.RegCounter("c12.keypair_marshal_unchanged_after_signing")
	c12modelDec     = core.RegCounter("c12.model_verify_decisions_compared")
	c12wrongLen     = core.RegCounter("c12.wrong_length_encodings_offered_to_decoders")
	c12skEdits      = core.RegCounter("c12.byzantine_secret_key_and_keypair_encodings")
	c12reuse        = core.RegCounter("c12.transcript_objects_reused_across_verify_and_add")
	c12batchOneRecv = core.RegCounter("c12.batch_entries_added_from_one_reused_pair_of_receiver_objects")
	c12rx           = core.RegCounter("c12.tuples_decoded_out_of_one_reused_receive_buffer")
	c12recycled     = core.RegCounter("c12.tuples_also_decoded_into_receivers_used_before")
)

var c12altKinds = []string{"sig-bit", "marker-cleared", "s-plus-L", "R-negated", "R-top-bit", "R-swapped", "sig-truncated", "sig-extended", "other-context", "other-message", "other-key", "pk-bit", "pk-non-canonical", "s-plus-delta"}

func init() {
	for i := range c12keyRoute {
		c12keyRoute[i] = core.RegCounter("c12.key_route." + []string{"GenerateKeyPair", "GenerateSecretKey", "GenerateMiniSecretKey+ExpandUniform", "ExpandEd25519", "NewSecretKeyFromEd25519Bytes", "ExpandUniform+wire"}[i])
	}
	for _, k := range c12altKinds {
		c12alt[k] = core.RegCounter("c12.wire." + k)
	}
	Register(&Workload{
		Name:     "C12",
		Property: "C12",
		Phase:    "signers, Byzantine wire, single and batch verifiers against a schnorrkel model",
		Variants: []string{"plain"},
		Rule: "per run: a key through one of six routes (three of them reading a fault-injecting entropy stream), 1..3 signing requests with tape-chosen context, message and transcript source (bytes; SHA-256/512, SHA3-256/512, BLAKE2b-256/512 instances mid-stream; SHAKE128/256 behind a chunking / failing reader), signing with a fault-injecting entropy reader; artifacts are marshalled and cross a wire applying one of 14 alterations (bit flips, marker cleared, s+L, s+-delta, negated / top-bit R, R swapped between signatures, truncation, extension, replay under another context / message / key, non-canonical public key); then a batch-verifier history (Add, Reset, capacity, Verify, VerifyBatchOnly, sizes 0..8 and around 95/190, cancelling pairs, failing entropy); " +
			"oracle: secret key, public key and signature bytes equal an independent schnorrkel model (Merlin model + math/big) fed with the entropy bytes actually delivered; Verify equals the model's decision on every delivered tuple and is false for every altered tuple; decoders reject what the statement lists and everything accepted re-marshals identically; batch per-entry = single, overall = conjunction, batch-only <=> non-empty and all valid; reader error => error (or the documented panic), never wrong data; " +
			"non-trivial = at least one alteration or injected fault was evaluated; distinct = distinct event-log digests",
		Real: []string{"primitives/sr25519 (keys, context, sign, batch_verify)", "primitives/merlin + internal/strobe", "curve Ristretto arithmetic (also used by the model for group operations - trusted layer)"},
		Stub: []string{"entropy reader (simio.Entropy)", "caller-supplied hash.Hash / XOF (wrapped: mid-stream state, chunked and failing reads)", "the wire (14 alteration kinds)"},
		Init: func(e *Env) error {
			if err := model.SelfTestMerlin(); err != nil {
				return err
			}
			return model.SelfTestRistretto()
		},
		Run: runC12,
	})
}

// marshalOwned returns a private copy of a MarshalBinary result and then scribbles on
// the slice the library returned: marshalled bytes belong to the caller (who may flip
// bits in place to build a negative test, or reuse the buffer), so nothing the library
// keeps may share memory with them.
func marshalOwned(b []byte, err error) []byte {
	if err != nil {
		return []byte("marshal-error:" + err.Error())
	}
	own := clone(b)
	for i := range b {
		b[i] ^= 0xff
	}
	return own
}

// srMulBase / srModelVerify: the model's own group arithmetic (math/big), not the library's.
func srMulBase(sLE []byte) []byte { return model.SrMulBase(sLE) }

func srModelVerify(t0 *model.MTranscript, pk, sig []byte) bool { return model.SrVerify(t0, pk, sig) }

// c12Ctxs hands out one SigningContext per context string per run: a signing
// context is a long-lived object that signers and verifiers reuse for many
// transcripts, so it must not accumulate state.
type c12Ctxs struct {
	keys   []string
	vals   []*sr25519.SigningContext
	reused int
}

func (c *c12Ctxs) get(ctx []byte) *sr25519.SigningContext {
	for i, k := range c.keys {
		if k == string(ctx) {
			return c.vals[i]
		}
	}
	sc := sr25519.NewSigningContext(ctx)
	c.keys = append(c.keys, string(ctx))
	c.vals = append(c.vals, sc)
	return sc
}

type c12Src struct {
	shared *sr25519.SigningTranscript
	cs     *c12Ctxs
	kind   int // 0 bytes, 1 hash, 2 xof
	hsel   int
	ctx    []byte
	msg    []byte
	label  string
	data   []byte // what gets appended under label
}

func c12Hash(sel int) hash.Hash {
	switch sel {
	case 0:
		return sha256.New()
	case 1:
		return sha512.New()
	case 2:
		return sha3.New256()
	case 3:
		return sha3.New512()
	case 4:
		h, _ := blake2b.New256(nil)
		return h
	default:
		h, _ := blake2b.New512(nil)
		return h
	}
}

func c12Shake(sel int) sha3.ShakeHash {
	if sel%2 == 0 {
		return sha3.NewShake128()
	}
	return sha3.NewShake256()
}

// resolve fills label/data (what the transcript must absorb) without the library.
func (s *c12Src) resolve() {
	switch s.kind {
	case 0:
		s.label, s.data = "sign-bytes", s.msg
	case 1:
		h := c12Hash(s.hsel)
		h.Write(s.msg)
		s.data = h.Sum(nil)
		s.label = "sign-256"
		if len(s.data) == 64 {
			s.label = "sign-512"
		}
	default:
		x := c12Shake(s.hsel)
		x.Write(s.msg)
		s.data = make([]byte, 32)
		x.Read(s.data)
		s.label = "sign-XoF"
	}
}

func (s *c12Src) model() *model.MTranscript { return model.SrTranscript(s.ctx, s.label, s.data) }

// transcript returns a library transcript for verification sides.  A signing
// transcript is a value callers keep and pass to several Verify / Add calls (Sign,
// Verify and Add work on clones), so with reuse=true the source hands out the SAME
// object again; a callee that appends to its argument shows as a later mismatch.
func (s *c12Src) transcript(reuse bool) *sr25519.SigningTranscript {
	if reuse && s.shared != nil {
		s.cs.reused++
		return s.shared
	}
	st := s.fresh()
	if reuse {
		s.shared = st
	}
	return st
}

func (s *c12Src) fresh() *sr25519.SigningTranscript {
	sc := s.cs.get(s.ctx)
	switch s.kind {
	case 0:
		return sc.NewTranscriptBytes(s.msg)
	case 1:
		h := c12Hash(s.hsel)
		h.Write(s.msg)
		return sc.NewTranscriptHash(h)
	default:
		x := c12Shake(s.hsel)
		x.Write(s.msg)
		return sc.NewTranscriptXOF(x)
	}
}

// c12companion is an honest (key, message, signature) of another signer, made once per worker.
var c12companion *struct {
	ctx          *sr25519.SigningContext
	pk, msg, sig []byte
}

func c12GetCompanion() *struct {
	ctx          *sr25519.SigningContext
	pk, msg, sig []byte
} {
	if c12companion == nil {
		kp, err := sr25519.GenerateKeyPair(NewDetReader(0xc12c))
		if err != nil {
			panic("harness: " + err.Error())
		}
		ctx := sr25519.NewSigningContext([]byte("c12 companion"))
		msg := []byte("another signer on the same connection")
		sig, err := kp.Sign(NewDetReader(0xc12d), ctx.NewTranscriptBytes(msg))
		if err != nil {
			panic("harness: " + err.Error())
		}
		c12companion = &struct {
			ctx          *sr25519.SigningContext
			pk, msg, sig []byte
		}{ctx, marshalOwned(kp.PublicKey().MarshalBinary()), msg, marshalOwned(sig.MarshalBinary())}
	}
	return c12companion
}

type c12Tuple struct {
	src      *c12Src
	pk, sig  []byte // as delivered
	altered  bool
	how      string
	want     bool // model decision
	lpk      *sr25519.PublicKey
	lsig     *sr25519.Signature
	decodeOK bool
}

func runC12(e *Env, r *core.Run) {
	t := r.T
	g := &Gen{T: t}
	nontrivial := false
	// Key-generation streams are never degenerate: all-zero entropy yields the secret
	// scalar 0, whose signatures verify on every message by construction (not a defect).
	entCfg := simio.EntropyCfg{Chunking: true, Errors: true, ErrWindow: 110}

	// ---------------- key acquisition ----------------
	var kp *sr25519.KeyPair
	var skm model.SrSecret
	route := t.W(6)
	r.Count(c12keyRoute[route])
	fallback := func() {
		mini := g.Bytes(32)
		m, err := sr25519.NewMiniSecretKeyFromBytes(mini)
		if err != nil {
			panic("harness: mini")
		}
		kp = m.ExpandEd25519().KeyPair()
		skm = model.SrExpandEd25519(mini)
	}
	switch route {
	case 0, 1:
		ent := simio.NewEntropy(r, entCfg)
		var err error
		var sk *sr25519.SecretKey
		if route == 0 {
			kp, err = sr25519.GenerateKeyPair(ent)
		} else {
			sk, err = sr25519.GenerateSecretKey(ent)
			if err == nil {
				kp = sk.KeyPair()
			}
		}
		if ent.WillFail(96) {
			r.Count(c12keyGenErr)
			nontrivial = true
			r.Ev("key route %d: reader failing at %d -> err=%v", route, len(ent.Delivered), err != nil)
			if err == nil {
				r.Fail("fault-rule", "key-generated-on-reader-error", "sr25519 key generation returned a key although the entropy reader failed after %d bytes", len(ent.Delivered))
				return
			}
			fallback()
		} else {
			if err != nil || len(ent.Delivered) != 96 {
				r.Fail("exactness", "key-generation-entropy", "key generation: err=%v after %d delivered bytes (want 96)", err, len(ent.Delivered))
				return
			}
			skm = model.SrGenerateSecret(ent.Delivered)
		}
	case 2:
		ent := simio.NewEntropy(r, entCfg)
		m, err := sr25519.GenerateMiniSecretKey(ent)
		if ent.WillFail(32) {
			r.Count(c12keyGenErr)
			nontrivial = true
			r.Ev("mini key: reader failing at %d -> err=%v", len(ent.Delivered), err != nil)
			if err == nil {
				r.Fail("fault-rule", "key-generated-on-reader-error", "GenerateMiniSecretKey returned a key although the entropy reader failed after %d bytes", len(ent.Delivered))
				return
			}
			fallback()
		} else {
			if err != nil || len(ent.Delivered) != 32 {
				r.Fail("exactness", "key-generation-entropy", "GenerateMiniSecretKey: err=%v after %d delivered bytes (want 32)", err, len(ent.Delivered))
				return
			}
			kp = m.ExpandUniform().KeyPair()
			skm = model.SrExpandUniform(ent.Delivered)
		}
	case 3:
		fallback()
	case 4:
		b := g.Bytes(64)
		if t.W(4) != 3 {
			b[0] &= 248
			b[31] &= 63
			b[31] |= 64
		}
		sk, err := sr25519.NewSecretKeyFromEd25519Bytes(b)
		m, ok := model.SrFromEd25519Bytes(b)
		if ok != (err == nil) {
			r.Fail("encoding", "ed25519-bytes-clamp-rule", "NewSecretKeyFromEd25519Bytes(%x): err=%v, the schnorrkel rule says acceptable=%v", b[:32], err, ok)
			return
		}
		if !ok {
			r.Count(c12unclamped)
			fallback()
		} else {
			kp, skm = sk.KeyPair(), m
		}
	default:
		mini := g.Bytes(32)
		m, err := sr25519.NewMiniSecretKeyFromBytes(mini)
		if err != nil {
			panic("harness: mini")
		}
		skb := marshalOwned(m.ExpandUniform().MarshalBinary())
		sk, err := sr25519.NewSecretKeyFromBytes(skb)
		if err != nil {
			r.Fail("encoding", "secret-key-roundtrip", "a marshalled secret key was refused: %v", err)
			return
		}
		kp = sk.KeyPair()
		skm = model.SrExpandUniform(mini)
	}
	pkm := srMulBase(skm.Key)
	skb := marshalOwned(kp.SecretKey().MarshalBinary())
	pkb := marshalOwned(kp.PublicKey().MarshalBinary())
	kpb := marshalOwned(kp.MarshalBinary())
	r.Ev("key route=%d sk=%s pk=%s", route, core.Hex8(skb), core.Hex8(pkb))
	if !bytes.Equal(skb, skm.Bytes()) {
		r.Fail("exactness", "secret-key", "route %d: secret key %x, schnorrkel model gives %x", route, skb, skm.Bytes())
		return
	}
	if !bytes.Equal(pkb, pkm) {
		r.Fail("exactness", "public-key", "public key %x, model gives %x", pkb, pkm)
		return
	}
	if !bytes.Equal(kpb, append(clone(skb), pkb...)) {
		r.Fail("encoding", "keypair-layout", "KeyPair.MarshalBinary is not secret||public")
		return
	}
	if kp2, err := sr25519.NewKeyPairFromBytes(kpb); err != nil || !bytes.Equal(marshalOwned(kp2.MarshalBinary()), kpb) {
		r.Fail("encoding", "keypair-roundtrip", "a marshalled key pair does not round-trip (err=%v)", err)
		return
	}
	r.Count(c12remarshal)

	// a second key for replays and mismatched pairs
	mini2 := g.Bytes(32)
	m2, _ := sr25519.NewMiniSecretKeyFromBytes(mini2)
	kp2 := m2.ExpandUniform().KeyPair()
	pkb2 := marshalOwned(kp2.PublicKey().MarshalBinary())
	// Equal is value equality of what the encodings carry: a decoded copy is equal, another key is not
	{
		skA, e1 := sr25519.NewSecretKeyFromBytes(skb)
		skB, e2 := sr25519.NewSecretKeyFromBytes(skb)
		pkA, e3 := sr25519.NewPublicKeyFromBytes(pkb)
		mA, e4 := sr25519.NewMiniSecretKeyFromBytes(mini2)
		if e1 != nil || e2 != nil || e3 != nil || e4 != nil {
			r.Fail("encoding", "roundtrip-decode", "decoding the run's own marshalled keys failed")
			return
		}
		sk2 := kp2.SecretKey()
		if !skA.Equal(skB) || skA.Equal(sk2) || sk2.Equal(skA) || !pkA.Equal(skA.PublicKey()) || pkA.Equal(kp2.PublicKey()) || !mA.Equal(m2) {
			r.Fail("encoding", "equal", "Equal disagrees with the encodings: sk==copy %v, sk==other %v, pk==derived %v, pk==other %v, mini==copy %v",
				skA.Equal(skB), skA.Equal(sk2), pkA.Equal(skA.PublicKey()), pkA.Equal(kp2.PublicKey()), mA.Equal(m2))
			return
		}
		// same scalar, another nonce half: a different secret key
		nb := clone(skb)
		nb[32+t.W(32)] ^= 1 << uint(t.W(8))
		if skN, err := sr25519.NewSecretKeyFromBytes(nb); err == nil && (skN.Equal(skA) || !skN.PublicKey().Equal(pkA)) {
			r.Fail("encoding", "equal", "a secret key with another nonce half compares equal (or its public key differs)")
			return
		}
	}
	// mismatched key pair must be refused
	if t.W(3) == 0 {
		bad := append(clone(skb), pkb2...)
		if _, err := sr25519.NewKeyPairFromBytes(bad); err == nil {
			r.Fail("encoding", "mismatched-keypair-accepted", "a key pair whose public half belongs to another secret key was accepted")
			return
		}
		nontrivial = true
	}

	// wrong lengths: each of the four encodings must be refused when truncated or extended
	{
		nontrivial = true
		enc := [][]byte{pkb, skb, kpb, marshalOwned((&sr25519.MiniSecretKey{}).MarshalBinary())}
		names := []string{"PublicKey", "SecretKey", "KeyPair", "MiniSecretKey"}
		which := t.W(4)
		b := clone(enc[which])
		if t.W(2) == 0 {
			b = b[:t.W(len(b))]
		} else {
			b = append(b, g.Bytes(1+t.W(len(b)))...)
			if t.W(2) == 1 {
				b = append(clone(enc[which]), enc[which]...) // the artifact twice (a duplicated write)
			}
		}
		var err error
		switch which {
		case 0:
			_, err = sr25519.NewPublicKeyFromBytes(b)
			if err == nil {
				var pk sr25519.PublicKey
				err = pk.UnmarshalBinary(b)
			}
		case 1:
			_, err = sr25519.NewSecretKeyFromBytes(b)
		case 2:
			_, err = sr25519.NewKeyPairFromBytes(b)
		default:
			_, err = sr25519.NewMiniSecretKeyFromBytes(b)
		}
		r.Count(c12wrongLen)
		r.Ev("wrong length: %s of %d bytes -> err=%v", names[which], len(b), err != nil)
		if err == nil {
			r.Fail("encoding", "decoder-accepted-wrong-length-"+names[which], "%s decoding accepted %d bytes (the encoding is %d bytes)", names[which], len(b), len(enc[which]))
			return
		}
	}

	// Byzantine encodings of the secret key and the key pair: scalar with bit 255 set, scalar + L,
	// public half of another key; everything accepted must re-marshal to the same bytes
	{
		nontrivial = true
		b := clone(kpb)
		kind := []string{"scalar-bit-255", "scalar-plus-L", "keypair-other-public-half", "nonce-bit", "scalar-is-L", "scalar-is-L-plus-1", "scalar-is-2^255-1"}[t.W(7)]
		mustReject := true
		switch kind {
		case "scalar-bit-255":
			b[31] |= 0x80
		case "scalar-plus-L":
			addL(b[:32])
		case "keypair-other-public-half":
			copy(b[64:], pkb2)
		case "scalar-is-L":
			// exactly the group order: a second encoding of the scalar 0, with the matching public key (identity)
			copy(b[:32], groupOrderL[:])
			copy(b[64:], make([]byte, 32))
		case "scalar-is-L-plus-1":
			copy(b[:32], groupOrderL[:])
			b[0]++
			one := make([]byte, 32)
			one[0] = 1
			copy(b[64:], model.SrMulBase(one))
		case "scalar-is-2^255-1":
			for i := 0; i < 32; i++ {
				b[i] = 0xff
			}
			b[31] = 0x7f
		default:
			b[32+t.W(32)] ^= 1 << uint(t.W(8))
			mustReject = false // a different nonce is a different, valid secret key
		}
		r.Count(c12skEdits)
		sk, serr := sr25519.NewSecretKeyFromBytes(b[:64])
		kpx, kerr := sr25519.NewKeyPairFromBytes(b)
		r.Ev("secret-key edit %s -> secret key err=%v, key pair err=%v", kind, serr != nil, kerr != nil)
		if mustReject && kerr == nil {
			r.Fail("encoding", "keypair-decoder-accepted-"+kind, "KeyPair decoding accepted an encoding with %s", kind)
			return
		}
		if mustReject && kind != "keypair-other-public-half" && serr == nil {
			r.Fail("encoding", "secretkey-decoder-accepted-"+kind, "SecretKey decoding accepted an encoding with %s", kind)
			return
		}
		if serr == nil && !bytes.Equal(marshalOwned(sk.MarshalBinary()), b[:64]) {
			r.Fail("encoding", "secret-key-remarshal", "an accepted secret key re-marshals to different bytes")
			return
		}
		if kerr == nil && !bytes.Equal(marshalOwned(kpx.MarshalBinary()), b) {
			r.Fail("encoding", "keypair-remarshal", "an accepted key pair re-marshals to different bytes")
			return
		}
	}

	// ---------------- signing requests ----------------
	var tuples []*c12Tuple
	var honest []*c12Tuple
	ctxs := &c12Ctxs{}
	var honestCtx []byte
	nreq := 1 + t.W(3)
	for q := 0; q < nreq && len(r.Main.Fails()) == 0; q++ {
		r.AddSteps(1)
		src := &c12Src{cs: ctxs, kind: t.W(3), hsel: t.W(6), ctx: g.Bytes(t.W(21)), msg: g.Msg()}
		if q > 0 && t.W(2) == 0 {
			src.ctx = honestCtx // same context again: the shared SigningContext is reused
		}
		honestCtx = src.ctx
		src.resolve()
		sc := ctxs.get(src.ctx)
		var st *sr25519.SigningTranscript
		switch src.kind {
		case 0:
			st = sc.NewTranscriptBytes(src.msg)
			r.Count(c12srcBytes)
		case 1:
			// the caller's instance is mid-stream; the library must only Sum it
			h, twin := c12Hash(src.hsel), c12Hash(src.hsel)
			cut := t.W(len(src.msg) + 1)
			h.Write(src.msg[:cut])
			h.Write(src.msg[cut:])
			twin.Write(src.msg)
			st = sc.NewTranscriptHash(h)
			tail := g.Bytes(1 + t.W(40))
			h.Write(tail)
			twin.Write(tail)
			r.Count(c12srcHash)
			r.Count(c12hashTwin)
			if !bytes.Equal(h.Sum(nil), twin.Sum(nil)) {
				r.Fail("caller-object", "hash-instance-disturbed", "after NewTranscriptHash the caller's hash instance no longer continues like an untouched twin")
				return
			}
		default:
			x := c12Shake(src.hsel)
			x.Write(src.msg)
			rd := simio.WrapReader(r, x, simio.EntropyCfg{Chunking: true, Errors: true, ErrWindow: 40})
			pan, pmsg := Guard(func() { st = sc.NewTranscriptXOF(rd) })
			r.Count(c12srcXOF)
			if rd.WillFail(32) {
				nontrivial = true
				r.Ev("XOF read failing at %d -> panic=%v", len(rd.Delivered), pan)
				if !pan {
					r.Fail("fault-rule", "xof-error-ignored", "NewTranscriptXOF returned a transcript although the XOF failed after %d bytes", len(rd.Delivered))
					return
				}
				if strings.HasPrefix(pmsg, "runtime error") {
					r.Fail("fault-rule", "xof-error-undocumented-panic", "NewTranscriptXOF panicked with %q", pmsg)
					return
				}
				r.Count(c12xofErr)
				continue
			}
			if pan {
				r.Fail("completeness", "xof-transcript-panicked", "NewTranscriptXOF panicked although 32 bytes were delivered: %s", pmsg)
				return
			}
			if len(rd.Delivered) != 32 {
				r.Fail("exactness", "xof-consumed-wrong-amount", "NewTranscriptXOF consumed %d XOF bytes, schnorrkel uses 32", len(rd.Delivered))
				return
			}
		}
		ent := simio.NewEntropy(r, simio.EntropyCfg{Chunking: true, Degenerate: true, Errors: true, ErrWindow: 40})
		sig, err := kp.Sign(ent, st)
		if ent.WillFail(32) {
			r.Count(c12signErr)
			nontrivial = true
			r.Ev("Sign(reader failing at %d) -> err=%v", len(ent.Delivered), err != nil)
			if err == nil || sig != nil {
				r.Fail("fault-rule", "Sign-succeeded-on-reader-error", "KeyPair.Sign returned a signature although the entropy reader failed after %d bytes", len(ent.Delivered))
				return
			}
			continue
		}
		if err != nil || len(ent.Delivered) != 32 {
			r.Fail("exactness", "sign-entropy", "KeyPair.Sign: err=%v after %d delivered entropy bytes (want 32)", err, len(ent.Delivered))
			return
		}
		sigb := marshalOwned(sig.MarshalBinary())
		want := model.SrSign(src.model(), skm, pkb, ent.Delivered, srMulBase)
		r.Count(c12signs)
		r.Ev("sign src=%d/%d ctx=%s msg=%s -> %s", src.kind, src.hsel, core.Hex8(src.ctx), core.Hex8(src.msg), core.Hex8(sigb))
		if !bytes.Equal(sigb, want) {
			r.Fail("exactness", "signature", "signature over source %s = %x, schnorrkel model gives %x", src.label, sigb, want)
			return
		}
		// signing must not disturb the key pair (the nonce goes through STROBE KEY)
		if !bytes.Equal(marshalOwned(kp.MarshalBinary()), kpb) {
			r.Fail("caller-object", "keypair-changed-by-signing", "the key pair's marshalled form changed after signing")
			return
		}
		r.Count(c12kpUnchanged)
		// the transcript passed to Sign must still be usable for verification (Sign clones it)
		if !kp.PublicKey().Verify(st, sig) {
			r.Fail("completeness", "honest-signature-rejected", "a fresh signature does not verify on the transcript it was made on")
			return
		}
		tp := &c12Tuple{src: src, pk: pkb, sig: sigb, how: "none"}
		honest = append(honest, tp)
		tuples = append(tuples, tp)
	}

	// ---------------- the wire ----------------
	for _, h := range honest {
		if len(r.Main.Fails()) > 0 {
			return
		}
		n := t.W(3)
		for a := 0; a < n; a++ {
			nontrivial = true
			how := c12altKinds[t.W(len(c12altKinds))]
			tp := &c12Tuple{src: h.src, pk: clone(h.pk), sig: clone(h.sig), altered: true, how: how}
			switch how {
			case "sig-bit":
				i := t.W(511) // bit 511 is the marker: that is "marker-cleared"
				tp.sig[i/8] ^= 1 << uint(i%8)
			case "marker-cleared":
				tp.sig[63] &= 127
			case "s-plus-L":
				s := clone(tp.sig[32:])
				s[31] &= 127
				addL(s)
				s[31] |= 128
				copy(tp.sig[32:], s)
			case "s-plus-delta":
				s := clone(tp.sig[32:])
				s[31] &= 127
				x := new(big.Int).Add(model.LEToBig(s), big.NewInt(int64(1+t.W(9))))
				x.Mod(x, model.GroupL)
				copy(tp.sig[32:], model.BigToLE32(x))
				tp.sig[63] |= 128
			case "R-negated":
				x := new(big.Int).Sub(fieldP, model.LEToBig(tp.sig[:32]))
				x.Mod(x, fieldP)
				copy(tp.sig[:32], leBytes32(x))
			case "R-top-bit":
				tp.sig[31] |= 128
			case "R-swapped":
				o := honest[t.W(len(honest))]
				if bytes.Equal(o.sig[:32], tp.sig[:32]) {
					// only one signature around: use an unrelated valid point
					copy(tp.sig[:32], pkb2)
				} else {
					copy(tp.sig[:32], o.sig[:32])
				}
			case "sig-truncated":
				tp.sig = tp.sig[:t.W(64)]
			case "sig-extended":
				tp.sig = append(tp.sig, byte(t.W(256)))
			case "other-context":
				s2 := *h.src
				s2.shared = nil
				s2.ctx = append(clone(h.src.ctx), 1)
				s2.resolve()
				tp.src = &s2
			case "other-message":
				s2 := *h.src
				s2.shared = nil
				s2.msg = append(clone(h.src.msg), byte(t.W(256)))
				s2.resolve()
				tp.src = &s2
			case "other-key":
				tp.pk = clone(pkb2)
			case "pk-bit":
				i := t.W(256)
				tp.pk[i/8] ^= 1 << uint(i%8)
			case "pk-non-canonical":
				if t.W(2) == 0 {
					tp.pk[31] |= 128
				} else {
					x := new(big.Int).Sub(fieldP, model.LEToBig(tp.pk))
					x.Mod(x, fieldP)
					tp.pk = leBytes32(x)
				}
			}
			if bytes.Equal(tp.sig, h.sig) && bytes.Equal(tp.pk, h.pk) && tp.src == h.src {
				continue // the alteration was the identity (e.g. negating R = 0)
			}
			r.Count(c12wire)
			r.Count(c12alt[how])
			tuples = append(tuples, tp)
		}
	}

	// ---------------- decode + single verification ----------------
	// Receivers that live as long as the run, as a connection handler that decodes every
	// incoming key and signature into the same two objects has: what an object was used
	// for before must not show in what it does after the next successful UnmarshalBinary.
	var recPK sr25519.PublicKey
	var recSig sr25519.Signature
	recycle := t.W(2) == 1
	rxOn := t.W(2) == 1
	var rx []byte
	for i, tp := range tuples {
		if len(r.Main.Fails()) > 0 {
			return
		}
		r.AddSteps(1)
		tp.want = srModelVerify(tp.src.model(), tp.pk, tp.sig)
		// in half of the runs every tuple is decoded out of the same receive buffer: the decoded objects are
		// used again later (batch history), long after the buffer holds other tuples
		wsig, wpk := tp.sig, tp.pk
		if rxOn {
			if cap(rx) < len(tp.sig)+len(tp.pk) {
				rx = make([]byte, 2*(len(tp.sig)+len(tp.pk))+64)
			}
			wsig = rx[:copy(rx, tp.sig)]
			wpk = rx[len(tp.sig) : len(tp.sig)+copy(rx[len(tp.sig):], tp.pk)]
			r.Count(c12rx)
		}
		lsig, serr := sr25519.NewSignatureFromBytes(wsig)
		lpk, perr := sr25519.NewPublicKeyFromBytes(wpk)
		tp.decodeOK = serr == nil && perr == nil
		// decoder rules the statement lists
		switch tp.how {
		case "marker-cleared", "s-plus-L", "sig-truncated", "sig-extended":
			if serr == nil {
				r.Fail("encoding", "decoder-accepted-"+tp.how, "Signature decoding accepted a %s signature %x", tp.how, tp.sig)
				return
			}
		case "pk-non-canonical":
			if perr == nil {
				r.Fail("encoding", "decoder-accepted-non-canonical-public-key", "PublicKey decoding accepted the non-canonical encoding %x", tp.pk)
				return
			}
		}
		if _, _, mok := model.SrDecodeSignature(tp.sig); mok != (serr == nil) {
			r.Fail("encoding", "signature-decode-rule", "Signature decoding of %x: err=%v, the encoding rules (length, marker, s < L) say acceptable=%v", tp.sig, serr, mok)
			return
		}
		if serr == nil {
			r.Count(c12remarshal)
			if !bytes.Equal(marshalOwned(lsig.MarshalBinary()), tp.sig) {
				r.Fail("encoding", "signature-remarshal", "an accepted signature re-marshals to different bytes")
				return
			}
		}
		if perr == nil {
			r.Count(c12remarshal)
			if !bytes.Equal(marshalOwned(lpk.MarshalBinary()), tp.pk) {
				r.Fail("encoding", "public-key-remarshal", "an accepted public key re-marshals to different bytes")
				return
			}
		}
		got := false
		if tp.decodeOK {
			tp.lpk, tp.lsig = lpk, lsig
			got = lpk.Verify(tp.src.transcript(t.W(2) == 1), lsig)
		} else {
			r.Count(c12decRej)
		}
		if recycle {
			if t.W(2) == 0 {
				// the receivers' previous use: another signer's honest tuple
				c := c12GetCompanion()
				if recSig.UnmarshalBinary(c.sig) != nil || recPK.UnmarshalBinary(c.pk) != nil || !recPK.Verify(c.ctx.NewTranscriptBytes(c.msg), &recSig) {
					r.Fail("object-reuse", "recycled-receiver-verify", "before tuple %d: another signer's honest tuple does not verify with receivers used for earlier tuples", i)
					return
				}
			}
			e1, e2 := recSig.UnmarshalBinary(tp.sig), recPK.UnmarshalBinary(tp.pk)
			r.Count(c12recycled)
			if (e1 == nil) != (serr == nil) || (e2 == nil) != (perr == nil) {
				r.Fail("object-reuse", "recycled-receiver-decode", "tuple %d: UnmarshalBinary into receivers used for earlier tuples: sig err=%v pk err=%v, decoding into fresh objects: sig err=%v pk err=%v", i, e1 != nil, e2 != nil, serr != nil, perr != nil)
				return
			}
			if e1 == nil && e2 == nil {
				if !bytes.Equal(marshalOwned(recSig.MarshalBinary()), tp.sig) || !bytes.Equal(marshalOwned(recPK.MarshalBinary()), tp.pk) {
					r.Fail("object-reuse", "recycled-receiver-remarshal", "tuple %d: receivers used for earlier tuples re-marshal to other bytes than they were just given", i)
					return
				}
				if got2 := recPK.Verify(tp.src.fresh(), &recSig); got2 != got {
					r.Fail("object-reuse", "recycled-receiver-verify", "tuple %d (%s): verification with receivers used for earlier tuples says %v, with freshly decoded objects %v", i, tp.how, got2, got)
					return
				}
			}
		}
		r.Count(c12modelDec)
		r.Ev("tuple%d %s ctx=%s msg=%s pk=%s sig=%s decode=%v verify=%v model=%v", i, tp.how, core.Hex8(tp.src.ctx), core.Hex8(tp.src.msg), core.Hex8(tp.pk), core.Hex8(tp.sig), tp.decodeOK, got, tp.want)
		if got != tp.want {
			r.Fail("model-decision", "verify-"+tp.how, "tuple altered by '%s': library says %v, schnorrkel model says %v", tp.how, got, tp.want)
			return
		}
		if tp.altered && got {
			r.Fail("integrity", "altered-"+tp.how+"-accepted", "a tuple altered by '%s' still verifies", tp.how)
			return
		}
		if !tp.altered {
			if !got {
				r.Fail("completeness", "honest-tuple-rejected", "an unaltered tuple does not verify after crossing the wire")
				return
			}
			r.Count(c12verifyOK)
		} else if tp.decodeOK {
			r.Count(c12verRej)
		}
	}

	// ---------------- batch history ----------------
	var pool []*c12Tuple
	for _, tp := range tuples {
		if tp.decodeOK {
			pool = append(pool, tp)
		}
	}
	// cancelling pair: s+delta and s-delta on two honest signatures
	if len(honest) >= 1 && t.W(3) == 0 {
		d := int64(1 + t.W(5))
		mk := func(h *c12Tuple, dd int64) *c12Tuple {
			tp := &c12Tuple{src: h.src, pk: h.pk, sig: clone(h.sig), altered: true, how: "cancelling"}
			s := clone(tp.sig[32:])
			s[31] &= 127
			x := new(big.Int).Add(model.LEToBig(s), big.NewInt(dd))
			x.Mod(x, model.GroupL)
			copy(tp.sig[32:], model.BigToLE32(x))
			tp.sig[63] |= 128
			tp.lsig, _ = sr25519.NewSignatureFromBytes(tp.sig)
			tp.lpk, _ = sr25519.NewPublicKeyFromBytes(tp.pk)
			tp.decodeOK = tp.lsig != nil && tp.lpk != nil
			tp.want = false
			return tp
		}
		a, b := mk(honest[0], d), mk(honest[len(honest)-1], -d)
		if a.decodeOK && b.decodeOK {
			pool = append(pool, a, b)
			r.Count(c12cancel)
			nontrivial = true
		}
	}
	if len(pool) > 0 {
		c12BatchHistory(r, e, pool)
	}
	r.CountN(c12reuse, int64(ctxs.reused))
	r.Nontrivial = nontrivial
}

func c12BatchHistory(r *core.Run, e *Env, pool []*c12Tuple) {
	t := r.T
	var bv *sr25519.BatchVerifier
	nb := 1 + t.W(3)
	// In half of the runs the verifier's caller decodes every entry into ONE Signature and ONE PublicKey
	// object (UnmarshalBinary into receivers that held the previous entry) and hands those to Add: an entry
	// is what Add was given at the time, not what the objects hold when the verdict is asked for.
	oneRecv := t.W(2) == 1
	var bSig sr25519.Signature
	var bPK sr25519.PublicKey
	add := func(bv *sr25519.BatchVerifier, tp *c12Tuple) {
		if oneRecv && bSig.UnmarshalBinary(tp.sig) == nil && bPK.UnmarshalBinary(tp.pk) == nil {
			r.Count(c12batchOneRecv)
			bv.Add(&bPK, tp.src.transcript(t.W(2) == 1), &bSig)
			return
		}
		bv.Add(tp.lpk, tp.src.transcript(t.W(2) == 1), tp.lsig)
	}
	for b := 0; b < nb && len(r.Main.Fails()) == 0; b++ {
		switch sel := t.W(3); {
		case sel == 0 || bv == nil:
			bv = sr25519.NewBatchVerifier()
		case sel == 1:
			bv = sr25519.NewBatchVerifierWithCapacity(t.W(16))
		default:
			bv.Reset()
			r.Count(c12batchReset)
		}
		n := t.W(9)
		switch t.W(12) {
		case 10:
			n = 93 + t.W(6)
		case 11:
			if e.Thorough() || t.W(2) == 1 {
				n = 188 + t.W(6)
			}
		}
		var want []bool
		all := true
		for i := 0; i < n; i++ {
			tp := pool[t.W(len(pool))]
			add(bv, tp)
			want = append(want, tp.want)
			all = all && tp.want
			r.Count(c12batchEnt)
		}
		r.AddSteps(uint64(n) + 1)
		if n == 0 {
			r.Count(c12batchEmpty)
		}
		if n >= 95 {
			r.Count(c12batchBig)
		}
		anyT, anyF := false, false
		for _, w := range want {
			anyT, anyF = anyT || w, anyF || !w
		}
		if anyT && anyF {
			r.Count(c12batchMixed)
		}
		doV := func() {
			ent := simio.NewEntropy(r, simio.EntropyCfg{Chunking: true, Degenerate: true, Errors: true, ErrWindow: 40})
			var ok bool
			var res []bool
			pan, pmsg := Guard(func() { ok, res = bv.Verify(ent) })
			r.Count(c12batches)
			if pan {
				if ent.Errored && !strings.HasPrefix(pmsg, "runtime error") {
					r.Count(c12batchPanic)
					r.Ev("batch Verify: documented panic under an injected entropy error")
					return
				}
				r.Fail("undocumented-panic", "batch-verify", "sr25519 BatchVerifier.Verify panicked: %s", pmsg)
				return
			}
			r.Ev("batch n=%d Verify -> %v %v", n, ok, res)
			if n == 0 {
				if ok || res != nil {
					r.Fail("batch-model", "empty-batch", "Verify on an empty batch returned (%v, %v)", ok, res)
				}
				return
			}
			if len(res) != n {
				r.Fail("batch-model", "result-length", "Verify returned %d results for %d entries", len(res), n)
				return
			}
			for i := range res {
				if res[i] != want[i] {
					r.Fail("batch-entry-vs-single", "entry", "batch entry %d of %d = %v, single verification = %v", i, n, res[i], want[i])
					return
				}
			}
			if ok != all {
				r.Fail("batch-model", "conjunction", "batch overall = %v, conjunction of single decisions = %v", ok, all)
			}
		}
		doBO := func() {
			ent := simio.NewEntropy(r, simio.EntropyCfg{Chunking: true, Degenerate: true, Errors: true, ErrWindow: 40})
			var ok bool
			pan, pmsg := Guard(func() { ok = bv.VerifyBatchOnly(ent) })
			r.Count(c12batchOnly)
			if pan {
				if ent.Errored && !strings.HasPrefix(pmsg, "runtime error") {
					r.Count(c12batchPanic)
					return
				}
				r.Fail("undocumented-panic", "batch-only", "sr25519 VerifyBatchOnly panicked: %s", pmsg)
				return
			}
			r.Ev("batch n=%d VerifyBatchOnly -> %v", n, ok)
			if ok != (n > 0 && all) {
				r.Fail("batch-model", "batch-only", "VerifyBatchOnly = %v on a %d-entry batch whose entries are all individually valid: %v", ok, n, all)
			}
		}
		switch t.W(4) {
		case 0:
			doV()
		case 1:
			doBO()
		case 2:
			doV()
			if len(r.Main.Fails()) == 0 {
				doBO()
			}
		default:
			doBO()
			if len(r.Main.Fails()) == 0 {
				doV()
			}
		}
		// a batch is a value: finishing it again without Reset must give the same answers
		for again := t.W(3); again > 0 && len(r.Main.Fails()) == 0; again-- {
			r.Count(c12again)
			if t.W(2) == 0 {
				doV()
			} else {
				doBO()
			}
		}
		// ... and it can grow after a verdict
		if n > 0 && n < 80 && t.W(4) == 0 && len(r.Main.Fails()) == 0 {
			for k := 1 + t.W(3); k > 0; k-- {
				tp := pool[t.W(len(pool))]
				add(bv, tp)
				want = append(want, tp.want)
				all = all && tp.want
				n++
				r.Count(c12batchEnt)
			}
			r.Count(c12grown)
			if t.W(2) == 0 {
				doV()
			} else {
				doBO()
				if len(r.Main.Fails()) == 0 {
					doV()
				}
			}
		}
	}
}
