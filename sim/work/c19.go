package work

import (
	"bytes"
	"crypto"
	"crypto/sha256"
	"crypto/sha512"
	"fmt"
	"math/big"
	"strings"
	"time"

	"golang.org/x/crypto/sha3"

	"github.com/oasisprotocol/curve25519-voi/curve"
	"github.com/oasisprotocol/curve25519-voi/curve/scalar"
	"github.com/oasisprotocol/curve25519-voi/primitives/ed25519"
	"github.com/oasisprotocol/curve25519-voi/primitives/ed25519/extra/cache"
	"github.com/oasisprotocol/curve25519-voi/primitives/ed25519/extra/ecvrf"
	"github.com/oasisprotocol/curve25519-voi/primitives/h2c"
	"github.com/oasisprotocol/curve25519-voi/primitives/merlin"
	"github.com/oasisprotocol/curve25519-voi/primitives/sr25519"
	"github.com/oasisprotocol/curve25519-voi/primitives/x25519"

	"verifsim/core"
	"verifsim/model"
)

// C19: storage / wire faults applied to artifacts the running system produced.
// One run = one (entry point, freshly produced artifact) pair; the fault space of
// that pair is enumerated, not sampled.

type c19Res struct {
	ok       bool   // the API accepted the input (nil error / true)
	reenc    []byte // re-encoding of what was accepted (nil if not applicable)
	after    []byte // encoding of the receiver after the call (nil if not applicable)
	hasAfter bool
	bad      string // an inconsistency observed by the entry point's own cross-checks
}

type c19Ctx struct {
	g    *Gen
	aux  map[string][]byte // companions of the artifact (message, key, ...)
	priv ed25519.PrivateKey
}

type c19Target struct {
	name string
	size int // natural length; every other length is malformed
	// gen produces a valid artifact (and fills c.aux with its companions)
	gen func(c *c19Ctx) []byte
	// try feeds b to the entry point; prev is another valid artifact of the same
	// type, preloaded into the receiver where there is one.
	try func(c *c19Ctx, prev, b []byte) c19Res
	// canonical: whatever is accepted re-encodes to the input bytes
	canonical bool
	// neutral: encoding of the documented neutral state the receiver must be in
	// after a failure; nil = none documented, "unchanged or neutral" is demanded.
	neutral []byte
	// zero: a neutral encoding accepted in addition to "unchanged" when neutral is nil
	zero []byte
	// panicsOnLength: the entry point is documented to panic when this argument has
	// the wrong length (public key, seed, pre-hash, private key of the non-error
	// provers).  The documented panic is recognised by that condition - a wrong-length
	// input and a panic value that is not a Go runtime error - not by its wording.
	panicsOnLength bool
	// lengthLenient: inputs of the wrong length are not malformed for this API.
	anyLength bool
	// docPanic: the documented condition under which the entry point panics on this
	// argument (e.g. a context longer than 255 bytes passed to verification); as with
	// panicsOnLength the panic is recognised by the condition, never by its wording.
	docPanic func(b []byte) bool
	// scalarAt: offsets of 32-byte fields that the format defines as canonical scalars (RFC 8032 S, RFC 9381 s,
	// schnorrkel s and secret scalar, the canonical scalar decoders).  The same residue written as s + k*L is a
	// malformed artifact that must be refused, whatever else is true of it.  scalarMarker: bit 255 of the field is
	// a format marker and not part of the scalar (schnorrkel signatures).
	scalarAt     []int
	scalarMarker bool
}

var (
	c19cases       = core.RegCounter("c19.cases")
	c19truncate    = core.RegCounter("c19.fault.truncate")
	c19nilIn       = core.RegCounter("c19.fault.nil")
	c19extend      = core.RegCounter("c19.fault.extend")
	c19bitflip     = core.RegCounter("c19.fault.bitflip")
	c19blockfill   = core.RegCounter("c19.fault.blockfill")
	c19fill        = core.RegCounter("c19.fault.fill")
	c19noise       = core.RegCounter("c19.fault.random_noise")
	c19pattern     = core.RegCounter("c19.fault.structured_pattern")
	c19special     = core.RegCounter("c19.fault.boundary_values_of_p_and_L")
	c19hang        = core.RegCounter("c19.calls_that_did_not_return")
	c19valid       = core.RegCounter("c19.fault.none_control")
	c19accepted    = core.RegCounter("c19.faulted_input_accepted")
	c19rejected    = core.RegCounter("c19.faulted_input_rejected")
	c19docPanic    = core.RegCounter("c19.documented_panics_observed")
	c19stateChk    = core.RegCounter("c19.receiver_state_checks")
	c19reencChk    = core.RegCounter("c19.reencode_checks")
	c19ctlRejected = core.RegCounter("c19.control_artifact_rejected_run_skipped")
	c19plusL       = core.RegCounter("c19.fault.scalar_field_plus_multiple_of_L")
)

var identityEd = func() []byte { b := make([]byte, 32); b[0] = 1; return b }()
var zeros32 = make([]byte, 32)
var srSigNeutral = func() []byte { b := make([]byte, 64); b[63] = 0x80; return b }()

func mustMarshal(b []byte, err error) []byte {
	if err != nil {
		return []byte("marshal-error:" + err.Error())
	}
	return b
}

func c19Targets() []c19Target {
	det := func() *DetReader { return NewDetReader(4242) }
	genEd := func(c *c19Ctx) []byte {
		p := c.g.EdPoint()
		if c.g.T.W(6) == 0 {
			p.Add(p, curve.EIGHT_TORSION[c.g.T.W(8)])
		}
		return edBytes(p)
	}
	genRis := func(c *c19Ctx) []byte { return risBytes(c.g.RisPoint()) }
	genScalar := func(c *c19Ctx) []byte { return mustMarshal(c.g.Scalar().MarshalBinary()) }
	genEdSig := func(c *c19Ctx) []byte {
		c.priv = c.g.EdKey()
		c.aux["pk"] = clone(c.priv[32:])
		c.aux["msg"] = c.g.Msg()
		return ed25519.Sign(c.priv, c.aux["msg"])
	}
	genEdPk := func(c *c19Ctx) []byte {
		c.priv = c.g.EdKey()
		c.aux["msg"] = c.g.Msg()
		c.aux["sig"] = ed25519.Sign(c.priv, c.aux["msg"])
		return clone(c.priv[32:])
	}
	genProof := func(c *c19Ctx) []byte {
		c.priv = c.g.EdKey()
		c.aux["pk"] = clone(c.priv[32:])
		c.aux["msg"] = c.g.Msg()
		return ecvrf.Prove(c.priv, c.aux["msg"])
	}
	genVrfPk := func(c *c19Ctx) []byte {
		c.priv = c.g.EdKey()
		c.aux["msg"] = c.g.Msg()
		c.aux["pi"] = ecvrf.Prove(c.priv, c.aux["msg"])
		return clone(c.priv[32:])
	}
	srKP := func(c *c19Ctx) *sr25519.KeyPair {
		kp, err := sr25519.GenerateKeyPair(NewDetReader(uint64(c.g.T.W(1 << 30))))
		if err != nil {
			panic(err)
		}
		return kp
	}
	presets := []*ed25519.VerifyOptions{ed25519.VerifyOptionsDefault, ed25519.VerifyOptionsStdLib, ed25519.VerifyOptionsFIPS_186_5, ed25519.VerifyOptionsZIP_215}

	var ts []c19Target
	add := func(t c19Target) {
		ts = append(ts, t)
	}

	// ---- curve: Edwards ----
	add(c19Target{name: "curve.EdwardsPoint.UnmarshalBinary", size: 32, gen: genEd, neutral: identityEd,
		try: func(c *c19Ctx, prev, b []byte) c19Res {
			var p curve.EdwardsPoint
			if err := p.UnmarshalBinary(prev); err != nil {
				panic("harness: prev not decodable")
			}
			err := p.UnmarshalBinary(b)
			enc := mustMarshal(p.MarshalBinary())
			return c19Res{ok: err == nil, after: enc, hasAfter: true}
		}})
	add(c19Target{name: "curve.CompressedEdwardsY.UnmarshalBinary", size: 32, gen: genEd, neutral: identityEd, canonical: true,
		try: func(c *c19Ctx, prev, b []byte) c19Res {
			var p curve.CompressedEdwardsY
			_ = p.UnmarshalBinary(prev)
			err := p.UnmarshalBinary(b)
			return c19Res{ok: err == nil, reenc: mustMarshal(p.MarshalBinary()), after: clone(p[:]), hasAfter: true}
		}})
	add(c19Target{name: "curve.CompressedEdwardsY.SetBytes", size: 32, gen: genEd, canonical: true, zero: zeros32,
		try: func(c *c19Ctx, prev, b []byte) c19Res {
			var p curve.CompressedEdwardsY
			_, _ = p.SetBytes(prev)
			_, err := p.SetBytes(b)
			return c19Res{ok: err == nil, reenc: clone(p[:]), after: clone(p[:]), hasAfter: true}
		}})
	add(c19Target{name: "curve.NewCompressedEdwardsYFromBytes", size: 32, gen: genEd, canonical: true,
		try: func(c *c19Ctx, prev, b []byte) c19Res {
			p, err := curve.NewCompressedEdwardsYFromBytes(b)
			if err != nil {
				if p != nil {
					return c19Res{bad: "non-nil result with error"}
				}
				return c19Res{}
			}
			return c19Res{ok: true, reenc: clone(p[:])}
		}, zero: nil})
	// ---- curve: Ristretto ----
	add(c19Target{name: "curve.RistrettoPoint.UnmarshalBinary", size: 32, gen: genRis, neutral: zeros32, canonical: true,
		try: func(c *c19Ctx, prev, b []byte) c19Res {
			var p curve.RistrettoPoint
			if err := p.UnmarshalBinary(prev); err != nil {
				panic("harness: prev not decodable")
			}
			err := p.UnmarshalBinary(b)
			enc := mustMarshal(p.MarshalBinary())
			return c19Res{ok: err == nil, reenc: enc, after: enc, hasAfter: true}
		}})
	add(c19Target{name: "curve.CompressedRistretto.UnmarshalBinary", size: 32, gen: genRis, neutral: zeros32, canonical: true,
		try: func(c *c19Ctx, prev, b []byte) c19Res {
			var p curve.CompressedRistretto
			_ = p.UnmarshalBinary(prev)
			err := p.UnmarshalBinary(b)
			return c19Res{ok: err == nil, reenc: clone(p[:]), after: clone(p[:]), hasAfter: true}
		}})
	add(c19Target{name: "curve.CompressedRistretto.SetBytes", size: 32, gen: genRis, canonical: true, zero: zeros32,
		try: func(c *c19Ctx, prev, b []byte) c19Res {
			var p curve.CompressedRistretto
			_, _ = p.SetBytes(prev)
			_, err := p.SetBytes(b)
			return c19Res{ok: err == nil, reenc: clone(p[:]), after: clone(p[:]), hasAfter: true}
		}})
	add(c19Target{name: "curve.RistrettoPoint.SetUniformBytes", size: 64, gen: func(c *c19Ctx) []byte { return c.g.Bytes(64) },
		try: func(c *c19Ctx, prev, b []byte) c19Res {
			var p curve.RistrettoPoint
			_, _ = p.SetUniformBytes(prev)
			before := mustMarshal(p.MarshalBinary())
			_, err := p.SetUniformBytes(b)
			_ = before
			return c19Res{ok: err == nil}
		}})
	add(c19Target{name: "curve.MontgomeryPoint.SetBytes", size: 32, zero: zeros32,
		gen: func(c *c19Ctx) []byte { var m curve.MontgomeryPoint; m.SetEdwards(c.g.EdPoint()); return clone(m[:]) },
		try: func(c *c19Ctx, prev, b []byte) c19Res {
			var m curve.MontgomeryPoint
			_, _ = m.SetBytes(prev)
			_, err := m.SetBytes(b)
			return c19Res{ok: err == nil, reenc: clone(m[:]), after: clone(m[:]), hasAfter: true}
		}, canonical: true})
	add(c19Target{name: "curve.EdwardsPoint.SetMontgomery(u coordinate)", size: 32,
		gen: func(c *c19Ctx) []byte { var m curve.MontgomeryPoint; m.SetEdwards(c.g.EdPoint()); return clone(m[:]) },
		try: func(c *c19Ctx, prev, b []byte) c19Res {
			if len(b) != 32 {
				return c19Res{} // MontgomeryPoint is a 32-byte array: other lengths cannot be passed (SetBytes is its own target)
			}
			var m curve.MontgomeryPoint
			copy(m[:], b)
			// u as a field element: bit 255 is ignored (RFC 7748), values 2^255-19 .. 2^255-1 are taken mod p
			uu := model.LEToBig(append(clone(b[:31]), b[31]&0x7f))
			uu.Mod(uu, fieldP)
			res := c19Res{}
			for sign := uint8(0); sign < 2; sign++ {
				var pp curve.EdwardsPoint
				pp.Set(curve.ED25519_BASEPOINT_POINT)
				ret, err := pp.SetMontgomery(&m, sign)
				if err != nil {
					if ret != nil {
						return c19Res{bad: "SetMontgomery returned a point together with an error"}
					}
					if sign == 1 && res.ok {
						return c19Res{ok: true, bad: "SetMontgomery accepts the u coordinate with one sign and refuses it with the other"}
					}
					continue
				}
				if sign == 1 && !res.ok {
					return c19Res{ok: true, bad: "SetMontgomery accepts the u coordinate with one sign and refuses it with the other"}
				}
				res.ok = true
				// what was accepted is a point whose u coordinate is the one given
				var back curve.MontgomeryPoint
				back.SetEdwards(&pp)
				if model.LEToBig(back[:]).Cmp(uu) != 0 {
					return c19Res{ok: true, bad: fmt.Sprintf("SetMontgomery(sign %d) accepted, but the resulting point has u = %x", sign, back[:])}
				}
			}
			return res
		}})
	// ---- scalars ----
	scalarTry := func(set func(s *scalar.Scalar, b []byte) error) func(c *c19Ctx, prev, b []byte) c19Res {
		return func(c *c19Ctx, prev, b []byte) c19Res {
			var s scalar.Scalar
			if _, err := s.SetCanonicalBytes(prev[:32]); err != nil {
				panic("harness: prev scalar")
			}
			err := set(&s, b)
			enc := mustMarshal(s.MarshalBinary())
			return c19Res{ok: err == nil, reenc: enc, after: enc, hasAfter: true}
		}
	}
	add(c19Target{scalarAt: []int{0}, name: "scalar.Scalar.UnmarshalBinary", size: 32, gen: genScalar, canonical: true, zero: zeros32,
		try: scalarTry(func(s *scalar.Scalar, b []byte) error { return s.UnmarshalBinary(b) })})
	add(c19Target{scalarAt: []int{0}, name: "scalar.Scalar.SetCanonicalBytes", size: 32, gen: genScalar, canonical: true, zero: zeros32,
		try: scalarTry(func(s *scalar.Scalar, b []byte) error { _, err := s.SetCanonicalBytes(b); return err })})
	add(c19Target{name: "scalar.Scalar.SetBytesModOrder", size: 32, gen: genScalar, zero: zeros32,
		try: func(c *c19Ctx, prev, b []byte) c19Res {
			r := scalarTry(func(s *scalar.Scalar, b []byte) error { _, err := s.SetBytesModOrder(b); return err })(c, prev, b)
			r.reenc = nil
			return r
		}})
	add(c19Target{name: "scalar.Scalar.SetBits", size: 32, gen: genScalar, zero: zeros32,
		try: func(c *c19Ctx, prev, b []byte) c19Res {
			var s scalar.Scalar
			_, _ = s.SetCanonicalBytes(prev)
			_, err := s.SetBits(b)
			return c19Res{ok: err == nil, after: mustMarshal(s.MarshalBinary()), hasAfter: true}
		}})
	add(c19Target{name: "scalar.Scalar.SetBytesModOrderWide", size: 64, gen: func(c *c19Ctx) []byte { return c.g.Bytes(64) },
		try: func(c *c19Ctx, prev, b []byte) c19Res {
			var s scalar.Scalar
			_, err := s.SetBytesModOrderWide(b)
			return c19Res{ok: err == nil}
		}})
	add(c19Target{scalarAt: []int{0}, name: "scalar.ScMinimalVartime", size: 32, gen: genScalar,
		try: func(c *c19Ctx, prev, b []byte) c19Res { return c19Res{ok: scalar.ScMinimalVartime(b)} }})
	// ---- Ed25519 ----
	add(c19Target{name: "ed25519.NewExpandedPublicKey", size: 32, gen: genEdPk,
		try: func(c *c19Ctx, prev, b []byte) c19Res {
			e, err := ed25519.NewExpandedPublicKey(b)
			if err != nil {
				if e != nil {
					return c19Res{bad: "non-nil key with error"}
				}
				return c19Res{}
			}
			y := e.CompressedY()
			return c19Res{ok: true, reenc: clone(y[:])}
		}, canonical: true})
	for i, vo := range presets {
		vo := vo
		o := &ed25519.Options{Verify: vo}
		add(c19Target{scalarAt: []int{32}, name: fmt.Sprintf("ed25519.VerifyWithOptions[preset%d](signature)", i), size: 64, gen: genEdSig,
			try: func(c *c19Ctx, prev, b []byte) c19Res {
				return c19Res{ok: ed25519.VerifyWithOptions(c.aux["pk"], c.aux["msg"], b, o)}
			}})
		add(c19Target{name: fmt.Sprintf("ed25519.VerifyWithOptions[preset%d](public key)", i), size: 32, gen: genEdPk, panicsOnLength: true,
			try: func(c *c19Ctx, prev, b []byte) c19Res {
				return c19Res{ok: ed25519.VerifyWithOptions(b, c.aux["msg"], c.aux["sig"], o)}
			}})
		add(c19Target{scalarAt: []int{32}, name: fmt.Sprintf("ed25519.BatchVerifier[preset%d](signature)", i), size: 64, gen: genEdSig,
			try: func(c *c19Ctx, prev, b []byte) c19Res {
				v := ed25519.NewBatchVerifier()
				v.AddWithOptions(c.aux["pk"], c.aux["msg"], b, o)
				bo := v.VerifyBatchOnly(det())
				ok, res := v.Verify(det())
				if len(res) != 1 || res[0] != ok || (bo && !ok) {
					return c19Res{ok: ok, bad: "Verify / VerifyBatchOnly / per-entry results are inconsistent"}
				}
				return c19Res{ok: ok}
			}})
		add(c19Target{name: fmt.Sprintf("ed25519.BatchVerifier[preset%d](public key)", i), size: 32, gen: genEdPk,
			try: func(c *c19Ctx, prev, b []byte) c19Res {
				v := ed25519.NewBatchVerifier()
				v.AddWithOptions(b, c.aux["msg"], c.aux["sig"], o)
				v.AddWithOptions(ed25519.PublicKey(c.priv[32:]), c.aux["msg"], c.aux["sig"], o)
				_ = v.VerifyBatchOnly(det())
				_, res := v.Verify(det())
				return c19Res{ok: len(res) == 2 && res[0]}
			}})
	}
	add(c19Target{scalarAt: []int{32}, name: "ed25519.VerifyExpandedWithOptions(signature)", size: 64, gen: genEdSig,
		try: func(c *c19Ctx, prev, b []byte) c19Res {
			e, err := ed25519.NewExpandedPublicKey(c.aux["pk"])
			if err != nil {
				panic("harness: expand")
			}
			return c19Res{ok: ed25519.VerifyExpandedWithOptions(e, c.aux["msg"], b, &ed25519.Options{Verify: ed25519.VerifyOptionsZIP_215})}
		}})
	add(c19Target{name: "cache.Verifier.VerifyWithOptions(public key)", size: 32, gen: genEdPk,
		try: func(c *c19Ctx, prev, b []byte) c19Res {
			v := cache.NewVerifier(cache.NewLRUCache(2))
			v.AddPublicKey(b)
			return c19Res{ok: v.VerifyWithOptions(b, c.aux["msg"], c.aux["sig"], &ed25519.Options{})}
		}})
	add(c19Target{scalarAt: []int{32}, name: "cache.Verifier.VerifyWithOptions(signature)", size: 64, gen: genEdSig,
		try: func(c *c19Ctx, prev, b []byte) c19Res {
			v := cache.NewVerifier(cache.NewLRUCache(2))
			bv := ed25519.NewBatchVerifier()
			v.Add(bv, c.aux["pk"], c.aux["msg"], b)
			ok1, _ := bv.Verify(det())
			ok2 := v.Verify(c.aux["pk"], c.aux["msg"], b)
			if ok1 != ok2 {
				return c19Res{ok: ok2, bad: "cached batch and cached single verification disagree"}
			}
			return c19Res{ok: ok2}
		}})
	add(c19Target{name: "ed25519.PrivateKey.Sign(private key)", size: 64,
		gen: func(c *c19Ctx) []byte { return clone(c.g.EdKey()) },
		try: func(c *c19Ctx, prev, b []byte) c19Res {
			sig, err := ed25519.PrivateKey(b).Sign(nil, []byte("m"), &ed25519.Options{})
			if err != nil && sig != nil {
				return c19Res{bad: "signature returned with error"}
			}
			return c19Res{ok: err == nil}
		}})
	add(c19Target{name: "ed25519.NewKeyFromSeed(seed)", size: 32, gen: func(c *c19Ctx) []byte { return c.g.Bytes(32) },
		panicsOnLength: true,
		try: func(c *c19Ctx, prev, b []byte) c19Res {
			k := ed25519.NewKeyFromSeed(b)
			return c19Res{ok: len(k) == 64}
		}})
	// ---- ECVRF ----
	add(c19Target{scalarAt: []int{48}, name: "ecvrf.Verify(proof)", size: 80, gen: genProof,
		try: func(c *c19Ctx, prev, b []byte) c19Res {
			ok, beta := ecvrf.Verify(c.aux["pk"], b, c.aux["msg"])
			if !ok && beta != nil {
				return c19Res{bad: "output returned with a failed verification"}
			}
			return c19Res{ok: ok}
		}})
	add(c19Target{scalarAt: []int{48}, name: "ecvrf.Verify_v10(proof)", size: 80,
		gen: func(c *c19Ctx) []byte {
			c.priv = c.g.EdKey()
			c.aux["pk"] = clone(c.priv[32:])
			c.aux["msg"] = c.g.Msg()
			return ecvrf.Prove_v10(c.priv, c.aux["msg"])
		},
		try: func(c *c19Ctx, prev, b []byte) c19Res {
			ok, beta := ecvrf.Verify_v10(c.aux["pk"], b, c.aux["msg"])
			if !ok && beta != nil {
				return c19Res{bad: "output returned with a failed verification"}
			}
			return c19Res{ok: ok}
		}})
	add(c19Target{name: "ecvrf.Verify(public key)", size: 32, gen: genVrfPk,
		try: func(c *c19Ctx, prev, b []byte) c19Res {
			ok, _ := ecvrf.Verify(b, c.aux["pi"], c.aux["msg"])
			return c19Res{ok: ok}
		}})
	add(c19Target{scalarAt: []int{48}, name: "ecvrf.ProofToHash(proof)", size: 80, gen: genProof,
		try: func(c *c19Ctx, prev, b []byte) c19Res {
			h, err := ecvrf.ProofToHash(b)
			if err != nil && h != nil {
				return c19Res{bad: "hash returned with error"}
			}
			return c19Res{ok: err == nil}
		}})
	// ---- X25519 ----
	add(c19Target{name: "x25519.X25519(point)", size: 32,
		gen: func(c *c19Ctx) []byte {
			c.aux["scalar"] = c.g.Bytes(32)
			var m curve.MontgomeryPoint
			m.SetEdwards(c.g.EdPoint())
			return clone(m[:])
		},
		try: func(c *c19Ctx, prev, b []byte) c19Res {
			out, err := x25519.X25519(c.aux["scalar"], b)
			if err != nil && out != nil {
				return c19Res{bad: "output returned with error"}
			}
			return c19Res{ok: err == nil}
		}})
	add(c19Target{name: "x25519.X25519(scalar)", size: 32,
		gen: func(c *c19Ctx) []byte {
			var m curve.MontgomeryPoint
			m.SetEdwards(c.g.EdPoint())
			c.aux["point"] = clone(m[:])
			return c.g.Bytes(32)
		},
		try: func(c *c19Ctx, prev, b []byte) c19Res {
			_, err := x25519.X25519(b, c.aux["point"])
			_, err2 := x25519.X25519(b, x25519.Basepoint)
			return c19Res{ok: err == nil && err2 == nil}
		}})
	add(c19Target{name: "x25519.EdPublicKeyToX25519(public key)", size: 32, gen: genEdPk,
		try: func(c *c19Ctx, prev, b []byte) c19Res {
			out, ok := x25519.EdPublicKeyToX25519(b)
			if !ok && out != nil {
				return c19Res{bad: "output returned with ok=false"}
			}
			return c19Res{ok: ok}
		}})
	// ---- sr25519 ----
	add(c19Target{scalarAt: []int{32}, scalarMarker: true, name: "sr25519.Signature.UnmarshalBinary", size: 64, neutral: srSigNeutral, canonical: true,
		gen: func(c *c19Ctx) []byte {
			kp := srKP(c)
			c.aux["msg"] = c.g.Msg()
			c.aux["pk"] = mustMarshal(kp.PublicKey().MarshalBinary())
			sig, err := kp.Sign(NewDetReader(uint64(c.g.T.W(1<<30))), sr25519.NewSigningContext([]byte("c19")).NewTranscriptBytes(c.aux["msg"]))
			if err != nil {
				panic(err)
			}
			return mustMarshal(sig.MarshalBinary())
		},
		try: func(c *c19Ctx, prev, b []byte) c19Res {
			var s sr25519.Signature
			if err := s.UnmarshalBinary(prev); err != nil {
				panic("harness: prev signature")
			}
			err := s.UnmarshalBinary(b)
			enc := mustMarshal(s.MarshalBinary())
			// a decoded (or reset) signature must be safe to verify, singly and in a batch
			pk, perr := sr25519.NewPublicKeyFromBytes(c.aux["pk"])
			if perr != nil {
				panic("harness: pk")
			}
			tr := sr25519.NewSigningContext([]byte("c19")).NewTranscriptBytes(c.aux["msg"])
			v1 := pk.Verify(tr, &s)
			bv := sr25519.NewBatchVerifier()
			bv.Add(pk, tr, &s)
			v2, _ := bv.Verify(det())
			if v1 != v2 {
				return c19Res{ok: err == nil, bad: "single and batch verification of the decoded signature disagree"}
			}
			return c19Res{ok: err == nil, reenc: enc, after: enc, hasAfter: true}
		}})
	add(c19Target{scalarAt: []int{32}, scalarMarker: true, name: "sr25519.NewSignatureFromBytes", size: 64, canonical: true,
		gen: func(c *c19Ctx) []byte {
			kp := srKP(c)
			sig, err := kp.Sign(NewDetReader(uint64(c.g.T.W(1<<30))), sr25519.NewSigningContext([]byte("c19")).NewTranscriptBytes(c.g.Msg()))
			if err != nil {
				panic(err)
			}
			return mustMarshal(sig.MarshalBinary())
		},
		try: func(c *c19Ctx, prev, b []byte) c19Res {
			s, err := sr25519.NewSignatureFromBytes(b)
			if err != nil {
				if s != nil {
					return c19Res{bad: "non-nil signature with error"}
				}
				return c19Res{}
			}
			return c19Res{ok: true, reenc: mustMarshal(s.MarshalBinary())}
		}})
	add(c19Target{name: "sr25519.PublicKey.UnmarshalBinary", size: 32, neutral: zeros32, canonical: true,
		gen: func(c *c19Ctx) []byte {
			kp := srKP(c)
			c.aux["msg"] = c.g.Msg()
			sig, err := kp.Sign(NewDetReader(uint64(c.g.T.W(1<<30))), sr25519.NewSigningContext([]byte("c19")).NewTranscriptBytes(c.aux["msg"]))
			if err != nil {
				panic(err)
			}
			c.aux["sig"] = mustMarshal(sig.MarshalBinary())
			return mustMarshal(kp.PublicKey().MarshalBinary())
		},
		try: func(c *c19Ctx, prev, b []byte) c19Res {
			var pk sr25519.PublicKey
			if err := pk.UnmarshalBinary(prev); err != nil {
				panic("harness: prev pk")
			}
			err := pk.UnmarshalBinary(b)
			enc := mustMarshal(pk.MarshalBinary())
			// a key whose decoding failed (the neutral "nil key"), or a zero value, must refuse to verify rather than
			// crash - with everything else about the call valid: a well-formed signature on a well-formed transcript
			sig, serr := sr25519.NewSignatureFromBytes(c.aux["sig"])
			if serr != nil {
				panic("harness: sig")
			}
			tr := sr25519.NewSigningContext([]byte("c19")).NewTranscriptBytes(c.aux["msg"])
			v1 := pk.Verify(tr, sig)
			bv := sr25519.NewBatchVerifier()
			bv.Add(&pk, tr, sig)
			v2, _ := bv.Verify(det())
			var zero sr25519.PublicKey
			v3 := zero.Verify(tr, sig)
			var zs sr25519.Signature
			v4 := pk.Verify(tr, &zs)
			switch {
			case v1 != v2:
				return c19Res{ok: err == nil, bad: "single and batch verification with the decoded key disagree"}
			case err != nil && v1:
				return c19Res{bad: "a key whose decoding failed verifies a signature"}
			case v3 || v4:
				return c19Res{ok: err == nil, bad: "a zero-value key or signature verifies"}
			}
			return c19Res{ok: err == nil, reenc: enc, after: enc, hasAfter: true}
		}})
	add(c19Target{name: "sr25519.NewPublicKeyFromBytes", size: 32, canonical: true,
		gen: func(c *c19Ctx) []byte { return mustMarshal(srKP(c).PublicKey().MarshalBinary()) },
		try: func(c *c19Ctx, prev, b []byte) c19Res {
			pk, err := sr25519.NewPublicKeyFromBytes(b)
			if err != nil {
				if pk != nil {
					return c19Res{bad: "non-nil key with error"}
				}
				return c19Res{}
			}
			return c19Res{ok: true, reenc: mustMarshal(pk.MarshalBinary())}
		}})
	add(c19Target{scalarAt: []int{0}, name: "sr25519.SecretKey.UnmarshalBinary", size: 64, canonical: true, zero: make([]byte, 64),
		gen: func(c *c19Ctx) []byte { return mustMarshal(srKP(c).SecretKey().MarshalBinary()) },
		try: func(c *c19Ctx, prev, b []byte) c19Res {
			var sk sr25519.SecretKey
			if err := sk.UnmarshalBinary(prev); err != nil {
				panic("harness: prev sk")
			}
			err := sk.UnmarshalBinary(b)
			enc := mustMarshal(sk.MarshalBinary())
			return c19Res{ok: err == nil, reenc: enc, after: enc, hasAfter: true}
		}})
	add(c19Target{scalarAt: []int{0}, name: "sr25519.NewSecretKeyFromBytes", size: 64, canonical: true,
		gen: func(c *c19Ctx) []byte { return mustMarshal(srKP(c).SecretKey().MarshalBinary()) },
		try: func(c *c19Ctx, prev, b []byte) c19Res {
			sk, err := sr25519.NewSecretKeyFromBytes(b)
			if err != nil {
				if sk != nil {
					return c19Res{bad: "non-nil key with error"}
				}
				return c19Res{}
			}
			_ = sk.PublicKey() // an accepted secret key must be usable
			return c19Res{ok: true, reenc: mustMarshal(sk.MarshalBinary())}
		}})
	add(c19Target{name: "sr25519.NewSecretKeyFromEd25519Bytes", size: 64,
		gen: func(c *c19Ctx) []byte {
			b := c.g.Bytes(64)
			b[0] &= 248
			b[31] &= 63
			b[31] |= 64
			return b
		},
		try: func(c *c19Ctx, prev, b []byte) c19Res {
			sk, err := sr25519.NewSecretKeyFromEd25519Bytes(b)
			if err != nil {
				if sk != nil {
					return c19Res{bad: "non-nil key with error"}
				}
				return c19Res{}
			}
			_ = sk.PublicKey()
			return c19Res{ok: true}
		}})
	add(c19Target{name: "sr25519.MiniSecretKey.UnmarshalBinary", size: 32, canonical: true, zero: zeros32,
		gen: func(c *c19Ctx) []byte { return c.g.Bytes(32) },
		try: func(c *c19Ctx, prev, b []byte) c19Res {
			var m sr25519.MiniSecretKey
			_ = m.UnmarshalBinary(prev)
			err := m.UnmarshalBinary(b)
			enc := mustMarshal(m.MarshalBinary())
			return c19Res{ok: err == nil, reenc: enc, after: enc, hasAfter: true}
		}})
	add(c19Target{name: "sr25519.NewMiniSecretKeyFromBytes", size: 32, canonical: true,
		gen: func(c *c19Ctx) []byte { return c.g.Bytes(32) },
		try: func(c *c19Ctx, prev, b []byte) c19Res {
			m, err := sr25519.NewMiniSecretKeyFromBytes(b)
			if err != nil {
				if m != nil {
					return c19Res{bad: "non-nil key with error"}
				}
				return c19Res{}
			}
			return c19Res{ok: true, reenc: mustMarshal(m.MarshalBinary())}
		}})
	add(c19Target{scalarAt: []int{0}, name: "sr25519.KeyPair.UnmarshalBinary", size: 96, neutral: make([]byte, 96), canonical: true,
		gen: func(c *c19Ctx) []byte { return mustMarshal(srKP(c).MarshalBinary()) },
		try: func(c *c19Ctx, prev, b []byte) c19Res {
			var kp sr25519.KeyPair
			if err := kp.UnmarshalBinary(prev); err != nil {
				panic("harness: prev keypair")
			}
			err := kp.UnmarshalBinary(b)
			enc := mustMarshal(kp.MarshalBinary())
			// the receiver held another pair before: whatever the outcome, its two halves go together
			if (kp.SecretKey() == nil) != (kp.PublicKey() == nil) {
				return c19Res{ok: err == nil, bad: fmt.Sprintf("after UnmarshalBinary (err=%v) into a receiver that held another key pair, exactly one of SecretKey() / PublicKey() is nil: half of the previous pair is left behind", err)}
			}
			return c19Res{ok: err == nil, reenc: enc, after: enc, hasAfter: true}
		}})
	add(c19Target{scalarAt: []int{0}, name: "sr25519.NewKeyPairFromBytes", size: 96, canonical: true,
		gen: func(c *c19Ctx) []byte { return mustMarshal(srKP(c).MarshalBinary()) },
		try: func(c *c19Ctx, prev, b []byte) c19Res {
			kp, err := sr25519.NewKeyPairFromBytes(b)
			if err != nil {
				if kp != nil {
					return c19Res{bad: "non-nil key pair with error"}
				}
				return c19Res{}
			}
			return c19Res{ok: true, reenc: mustMarshal(kp.MarshalBinary())}
		}})
	// ---- message expanders and transcripts: any content and length is well-formed input ----
	add(c19Target{name: "h2c.ExpandMessageXMD(dst,message)", anyLength: true, size: 48,
		gen: func(c *c19Ctx) []byte { return c.g.Bytes(48) },
		try: func(c *c19Ctx, prev, b []byte) c19Res {
			ok := true
			for _, n := range []int{0, 1, 32, 255, 256, 8160, 8161, 65535, 65536} {
				out := make([]byte, n)
				e1 := h2c.ExpandMessageXMD(out, crypto.SHA256, b, prev)
				e2 := h2c.ExpandMessageXMD(out, crypto.SHA512, prev, b)
				_, _ = e1, e2 // which lengths are refused is C14's business; C19: it returns
			}
			// other hash functions: too short a digest is an error, any other block / digest size just works
			for _, hf := range []crypto.Hash{crypto.SHA1, crypto.SHA224, crypto.SHA384, crypto.SHA512_224, crypto.SHA512_256, crypto.SHA3_256, crypto.SHA3_512} {
				if !hf.Available() {
					continue
				}
				for _, n := range []int{1, hf.Size(), hf.Size() + 1, 255 * hf.Size(), 255*hf.Size() + 1} {
					out := make([]byte, n)
					err := h2c.ExpandMessageXMD(out, hf, b, prev)
					if (hf.Size() < 32 || n > 255*hf.Size()) && err == nil {
						return c19Res{bad: fmt.Sprintf("ExpandMessageXMD(%v, %d bytes) returned no error (digest too short for k=128, or more than 255 blocks)", hf, n)}
					}
				}
			}
			_, _ = h2c.Edwards25519_XMD_SHA512_ELL2_RO(b, prev)
			return c19Res{ok: ok}
		}})
	add(c19Target{name: "h2c.ExpandMessageXOF(dst,message)", anyLength: true, size: 48,
		gen: func(c *c19Ctx) []byte { return c.g.Bytes(48) },
		try: func(c *c19Ctx, prev, b []byte) c19Res {
			ok := true
			for _, n := range []int{0, 1, 32, 255, 256, 65535, 65536} {
				out := make([]byte, n)
				e1 := h2c.ExpandMessageXOF(out, sha3.NewShake128(), b, prev)
				e2 := h2c.ExpandMessageXOF(out, sha3.NewShake256(), prev, b)
				_, _ = e1, e2
			}
			_, _ = h2c.Ristretto255_XOF_R255MAP_RO(sha3.NewShake128(), b, prev)
			return c19Res{ok: ok}
		}})
	add(c19Target{name: "merlin.Transcript(labels,messages)", anyLength: true, size: 40,
		gen: func(c *c19Ctx) []byte { return c.g.Bytes(40) },
		try: func(c *c19Ctx, prev, b []byte) c19Res {
			t := merlin.NewTranscript(string(b))
			t.AppendMessage(string(prev), b)
			t.AppendMessage(string(b), nil)
			out := make([]byte, len(b))
			t.ExtractBytes(out, string(b))
			rb := t.BuildRng().RekeyWithWitnessBytes(string(b), b)
			rd, err := rb.Finalize(det())
			if err != nil {
				return c19Res{}
			}
			_, err = rd.Read(out)
			return c19Res{ok: err == nil}
		}})
	add(c19Target{name: "sr25519.SigningContext(context,message)", anyLength: true, size: 40,
		gen: func(c *c19Ctx) []byte { return c.g.Bytes(40) },
		try: func(c *c19Ctx, prev, b []byte) c19Res {
			// one context, all three constructors, in an order the input picks; afterwards the context is what a
			// fresh one for the same bytes is (a transcript constructor does not consume or change its context)
			sc := sr25519.NewSigningContext(b)
			mk := []func(){
				func() { _ = sc.NewTranscriptBytes(prev) },
				func() { _ = sc.NewTranscriptBytes(b) },
				func() { x := sha3.NewShake128(); x.Write(b); _ = sc.NewTranscriptXOF(x) },
				func() { h := sha512.New(); h.Write(b); _ = sc.NewTranscriptHash(h) },
				func() { h := sha256.New(); h.Write(prev); _ = sc.NewTranscriptHash(h) },
			}
			rot := len(b)
			if len(b) > 0 {
				rot += int(b[0])
			}
			for i := range mk {
				mk[(i+rot)%len(mk)]()
			}
			kp, err := sr25519.GenerateKeyPair(det())
			if err != nil {
				return c19Res{bad: "GenerateKeyPair failed on a working reader"}
			}
			sig, err := kp.Sign(det(), sc.NewTranscriptBytes(prev))
			if err != nil {
				return c19Res{bad: "Sign failed on a working reader"}
			}
			if !kp.PublicKey().Verify(sr25519.NewSigningContext(b).NewTranscriptBytes(prev), sig) {
				return c19Res{bad: "a signature made on a context that produced other transcripts before does not verify on a fresh context for the same bytes"}
			}
			return c19Res{ok: true}
		}})
	return append(ts, c19MoreTargets()...)
}

// c19Timeout: "terminates" is decided with a real-time limit far above any legitimate cost.
const c19Timeout = 20 * time.Second

var c19T []c19Target

func init() {
	Register(&Workload{
		Name:     "C19",
		Property: "C19",
		Phase:    "torn / truncated / extended / flipped artifacts at every byte-taking entry point",
		Variants: []string{"plain"},
		Rule: "run i targets entry point i mod N (N entry points, listed in the evidence counters) with a freshly produced valid artifact (keys, points, scalars, signatures, proofs generated by running the library from tape-drawn seeds) and ENUMERATES the fault space of that pair: truncation to every length 0..n-1, nil, extension by 1, 2 and n bytes, every single-bit flip, zero- and 0xFF-fill of every aligned 8-byte block, all-zero / all-0xFF of length n, plus 24 seeded random strings of random length (reported separately as noise); " +
			"oracle per case: no panic other than the documented ones; wrong length => error/false; accepted => re-encodes to the input where the contract is canonical; after a failure the receiver is the documented neutral value (reset-idiom types) or unchanged-or-neutral (others), never a hybrid; constructors return nil with an error; " +
			"every run is non-trivial (>= 300 cases); distinct = distinct (entry point, artifact) event-log digests",
		Real: []string{"every decoder and verification entry point of curve, curve/scalar, ed25519, cache, ecvrf, x25519, sr25519, h2c, merlin"},
		Stub: []string{"the wire/storage that tears, truncates, extends and flips the artifacts (enumerated)", "batch entropy: deterministic reader"},
		Run:  runC19,
	})
}

func c19Faults(g *Gen, tg *c19Target, a []byte, visit func(kind int, name string, b []byte)) {
	n := len(a)
	visit(c19valid, "none", clone(a))
	for _, off := range tg.scalarAt {
		if off+32 > n {
			continue
		}
		f := clone(a[off : off+32])
		var marker byte
		if tg.scalarMarker {
			marker = f[31] & 0x80
			f[31] &= 0x7f
		}
		for k := 1; k <= 15; k++ {
			if !addL(f) || (tg.scalarMarker && f[31]&0x80 != 0) {
				break
			}
			b := clone(a)
			copy(b[off:], f)
			b[off+31] |= marker
			visit(c19plusL, "scalar-plus-kL", b)
		}
	}
	for l := 0; l < n; l++ {
		visit(c19truncate, "truncate", clone(a[:l]))
	}
	visit(c19nilIn, "nil", nil)
	visit(c19extend, "extend", append(clone(a), 0))
	visit(c19extend, "extend", append(clone(a), a[0], a[1]))
	visit(c19extend, "extend", append(clone(a), a...))
	for i := 0; i < 8*n; i++ {
		b := clone(a)
		b[i/8] ^= 1 << uint(i%8)
		visit(c19bitflip, "bitflip", b)
	}
	for off := 0; off+8 <= n; off += 8 {
		for _, v := range []byte{0, 0xff} {
			b := clone(a)
			for j := off; j < off+8; j++ {
				b[j] = v
			}
			visit(c19blockfill, "blockfill", b)
		}
	}
	visit(c19fill, "fill", make([]byte, n))
	visit(c19fill, "fill", bytes.Repeat([]byte{0xff}, n))
	if n == 32 {
		// structured values a torn or zero-filled write produces: a single set bit, a run of low bits
		for k := 0; k < 256; k++ {
			b := make([]byte, 32)
			b[k/8] = 1 << uint(k%8)
			visit(c19pattern, "pattern", b)
			for j := 0; j < k/8; j++ {
				b[j] = 0xff
			}
			b[k/8] = byte(1<<uint(k%8+1) - 1)
			visit(c19pattern, "pattern", b)
		}
	}
	if n == 32 || n == 64 || n == 80 || n == 96 {
		// boundary values of the two public moduli, p = 2^255 - 19 (RFC 7748 / 8032) and the group order L, as a
		// 32-byte little-endian field, with bit 255 clear and set: p-3 .. p+21 covers -1, 0, 1 and every value
		// that has a second (non-canonical) encoding below 2^255; likewise around L, 2^252, 2^255 and 0
		one := big.NewInt(1)
		bases := []*big.Int{new(big.Int), fieldP, model.GroupL, new(big.Int).Lsh(one, 252), new(big.Int).Lsh(one, 255), new(big.Int).Lsh(model.GroupL, 3)}
		for _, base := range bases {
			for d := int64(-3); d <= 21; d++ {
				v := new(big.Int).Add(base, big.NewInt(d))
				if v.Sign() < 0 || v.BitLen() > 256 {
					continue
				}
				f := leBytes32(v)
				// ... written over each 32-byte field of the artifact: the first, the last, and the declared scalar fields
				offs := append([]int{0, n - 32}, tg.scalarAt...)
				seen := map[int]bool{}
				for _, off := range offs {
					if off < 0 || off+32 > n || seen[off] {
						continue
					}
					seen[off] = true
					b := clone(a)
					copy(b[off:], f)
					visit(c19special, "modulus-boundary", b)
					if f[31]&0x80 == 0 {
						b2 := clone(b)
						b2[off+31] |= 0x80
						visit(c19special, "modulus-boundary", b2)
					}
				}
			}
		}
	}
	for i := 0; i < 24; i++ {
		l := g.T.W(2*n + 2)
		visit(c19noise, "noise", g.Bytes(l))
	}
}

// one counter slot per entry point; the names are known once the target table exists
var c19tgtCtr = func() (a [192]int) {
	for i := range a {
		a[i] = core.RegCounter(fmt.Sprintf("~c19.target.%03d", i))
	}
	return
}()

func runC19(e *Env, r *core.Run) {
	if c19T == nil {
		c19T = c19Targets()
		if len(c19T) > len(c19tgtCtr) {
			panic("harness: more C19 targets than counter slots")
		}
		for i, tg := range c19T {
			core.RenameCounter(c19tgtCtr[i], "c19.runs_on."+tg.name)
		}
	}
	ti := int(r.Index % uint64(len(c19T)))
	tg := c19T[ti]
	r.Count(c19tgtCtr[ti])
	g := &Gen{T: r.T}
	c := &c19Ctx{g: g, aux: map[string][]byte{}}
	prevCtx := &c19Ctx{g: g, aux: map[string][]byte{}}
	prev := tg.gen(prevCtx)
	a := tg.gen(c)
	r.Ev("target %s artifact=%s prev=%s", tg.name, core.Hex8(a), core.Hex8(prev))
	var prevAfter []byte
	{
		// control: the untouched artifact must be accepted.  If it is not, something
		// other than C19 is broken on this tree; that is not this check's business.
		var res c19Res
		returned, pan, pmsg := GuardTimeout(c19Timeout, func() { res = tg.try(c, prev, a) })
		if !returned {
			// not returning on a valid artifact is not returning on externally supplied bytes
			r.Count(c19hang)
			r.Fail("does-not-terminate", tg.name+"/none", "%s did not return within %v on a valid, untouched artifact %x (it normally takes microseconds)", tg.name, c19Timeout, a)
			return
		}
		if pan {
			// a panic on the untouched artifact is a panic on externally supplied bytes like any other
			r.Fail("undocumented-panic", tg.name+"/none", "%s panicked on a valid, untouched artifact %x: %s", tg.name, a, pmsg)
			return
		}
		if res.bad != "" {
			// the entry point's own cross-checks fail on a valid artifact
			r.Fail("inconsistent-result", tg.name+"/none", "%s on a valid, untouched artifact %x: %s", tg.name, a, res.bad)
			return
		}
		if !res.ok {
			r.Count(c19ctlRejected)
			r.Ev("control rejected; run skipped")
			return
		}
		// what the receiver encodes to when it holds prev (for the "unchanged" alternative)
		returned, pan, _ = GuardTimeout(c19Timeout, func() { res = tg.try(c, prev, prev) })
		if !returned {
			r.Count(c19hang)
			r.Fail("does-not-terminate", tg.name+"/none", "%s did not return within %v on a valid, untouched artifact %x (it normally takes microseconds)", tg.name, c19Timeout, prev)
			return
		}
		if !pan && res.ok && res.hasAfter {
			prevAfter = res.after
		}
	}
	accepted, rejected := 0, 0
	reported := map[string]bool{}
	c19Faults(g, &tg, a, func(kind int, fname string, b []byte) {
		if Hung {
			return
		}
		r.Count(c19cases)
		r.Count(kind)
		r.AddSteps(1)
		var res c19Res
		// the input is handed over as a slice with spare capacity followed by guard bytes: an entry
		// point must neither modify the caller's bytes nor write behind them
		var gb *Guarded
		if b != nil {
			gb = NewGuarded(b)
			b = gb.B()
		}
		returned, pan, msg := GuardTimeout(c19Timeout, func() { res = tg.try(c, prev, b) })
		fail := func(class, what, format string, args ...interface{}) {
			key := tg.name + "/" + fname
			if reported[class+key] {
				return
			}
			reported[class+key] = true
			r.Fail(class, key, "%s on %s input %x (len %d): %s", tg.name, what, b, len(b), fmt.Sprintf(format, args...))
		}
		if !returned {
			r.Count(c19hang)
			fail("does-not-terminate", fname, "the call did not return within %v (it normally takes microseconds)", c19Timeout)
			return
		}
		if gb != nil {
			if content, guard := gb.Intact(); !content || !guard {
				fail("caller-memory", fname, "the caller's input buffer was modified (content intact: %v, bytes behind it intact: %v)", content, guard)
				return
			}
		}
		if pan {
			if ((tg.panicsOnLength && len(b) != tg.size) || (tg.docPanic != nil && tg.docPanic(b))) && !strings.HasPrefix(msg, "runtime error") {
				r.Count(c19docPanic)
				return
			}
			fail("undocumented-panic", fname, "panic: %s", msg)
			return
		}
		if fname == "none" {
			return
		}
		if res.bad != "" {
			fail("inconsistent-result", fname, "%s", res.bad)
			return
		}
		if res.ok {
			accepted++
			r.Count(c19accepted)
		} else {
			rejected++
			r.Count(c19rejected)
		}
		if fname == "scalar-plus-kL" && res.ok {
			fail("malformed-accepted", fname, "accepted although a scalar field holds a value that is not below the group order (the original plus a multiple of L)")
			return
		}
		if len(b) != tg.size && !tg.anyLength && res.ok {
			fail("malformed-accepted", fname, "input of length %d accepted (the encoding is %d bytes)", len(b), tg.size)
			return
		}
		if res.ok && tg.canonical && res.reenc != nil {
			r.Count(c19reencChk)
			if !bytes.Equal(res.reenc, b) {
				fail("non-canonical-accepted", fname, "accepted, but re-encodes to %x", res.reenc)
			}
		}
		if !res.ok && res.hasAfter {
			r.Count(c19stateChk)
			switch {
			case tg.neutral != nil:
				if !bytes.Equal(res.after, tg.neutral) {
					fail("receiver-state", fname, "after the failed call the receiver encodes to %x, documented neutral state is %x", res.after, tg.neutral)
				}
			case prevAfter != nil:
				if !bytes.Equal(res.after, prevAfter) && !(tg.zero != nil && bytes.Equal(res.after, tg.zero)) {
					fail("receiver-state", fname, "after the failed call the receiver encodes to %x: neither its previous value %x nor a neutral value", res.after, prevAfter)
				}
			}
		}
	})
	r.Nontrivial = true
	r.Ev("summary cases accepted=%d rejected=%d", accepted, rejected)
}
