package work

import (
	"bytes"
	"crypto"
	"crypto/sha512"
	"encoding/hex"
	"fmt"

	"golang.org/x/crypto/sha3"

	"github.com/oasisprotocol/curve25519-voi/curve"
	"github.com/oasisprotocol/curve25519-voi/curve/scalar"
	"github.com/oasisprotocol/curve25519-voi/primitives/ed25519"
	"github.com/oasisprotocol/curve25519-voi/primitives/ed25519/extra/cache"
	"github.com/oasisprotocol/curve25519-voi/primitives/ed25519/extra/ecvrf"
	"github.com/oasisprotocol/curve25519-voi/primitives/h2c"
	"github.com/oasisprotocol/curve25519-voi/primitives/merlin"
	"github.com/oasisprotocol/curve25519-voi/primitives/sr25519"
	"github.com/oasisprotocol/curve25519-voi/primitives/x25519"

	"verifsim/core"
	"verifsim/rt"
)

// C18 phase C: whole-library race freedom.  Tasks run scripts over the public
// API while sharing everything the property lists; the build is -race and the
// token hand-off is invisible to the detector (rt), so any unsynchronised write
// to shared state is reported whenever both accesses occur in the run.

const cNumKeys = 4

type cShared struct {
	priv  []ed25519.PrivateKey
	pub   []ed25519.PublicKey
	exp   []*ed25519.ExpandedPublicKey
	msgs  [][]byte
	sigs  [][]byte
	cv    *cache.Verifier
	sctx  *sr25519.SigningContext
	skp   *sr25519.KeyPair
	spk   *sr25519.PublicKey
	ssigs []*sr25519.Signature
	shake sha3.ShakeHash
	tbl   *curve.EdwardsBasepointTable
	ep    *curve.ExpandedEdwardsPoint
	erp   *curve.ExpandedRistrettoPoint
	pt    *curve.EdwardsPoint
	t0    *merlin.Transcript
	xpriv *x25519.PrivateKey
	xpub  *x25519.PublicKey
	enc   [][]byte // wire encodings that every task parses from the same backing arrays
	// option structs are values callers keep in one place and pass to every call
	optsSV  *ed25519.Options // Ed25519ctx, hedged, self-verifying, a non-default verification preset
	optsVer *ed25519.Options // the same variant for verifiers
	vopts   *ed25519.VerifyOptions
	sigCtx  [][]byte // deterministic Ed25519ctx signatures under optsVer's context
	longDST []byte   // a domain separation tag longer than 255 bytes
}

// indices into cShared.enc
const (
	encSrSig = iota // .. encSrSig+cNumKeys-1
	encSrPub = encSrSig + cNumKeys + iota - 1
	encSrSec
	encSrKp
	encSrMini
	encEdPt
	encRisPt
	encWide
	encProof
	encXScalar
	encXPoint
	encCanon
	encCount
)

func newCShared() *cShared {
	sh := &cShared{}
	for i := 0; i < cNumKeys; i++ {
		seed := sha512.Sum512_256([]byte{'c', byte(i)})
		p := ed25519.NewKeyFromSeed(seed[:])
		sh.priv = append(sh.priv, p)
		sh.pub = append(sh.pub, ed25519.PublicKey(p[32:]))
		e, err := ed25519.NewExpandedPublicKey(sh.pub[i])
		if err != nil {
			panic(err)
		}
		sh.exp = append(sh.exp, e)
		m := bytes.Repeat([]byte{byte(i + 1)}, 10+i)
		sh.msgs = append(sh.msgs, m)
		sh.sigs = append(sh.sigs, ed25519.Sign(p, m))
	}
	sh.cv = cache.NewVerifier(cache.NewLRUCache(2))
	sh.sctx = sr25519.NewSigningContext([]byte("verif-ctx"))
	var err error
	if sh.skp, err = sr25519.GenerateKeyPair(NewDetReader(77)); err != nil {
		panic(err)
	}
	sh.spk = sh.skp.PublicKey()
	for i := 0; i < cNumKeys; i++ {
		s, err := sh.skp.Sign(NewDetReader(uint64(100+i)), sh.sctx.NewTranscriptBytes(sh.msgs[i]))
		if err != nil {
			panic(err)
		}
		sh.ssigs = append(sh.ssigs, s)
	}
	sh.shake = sha3.NewShake128()
	sh.shake.Write([]byte("pre-absorbed caller data")) // the library must clone+reset, never touch it
	var P curve.EdwardsPoint
	P.MulBasepoint(curve.ED25519_BASEPOINT_TABLE, scalar.NewFromUint64(12345))
	sh.pt = &P
	sh.tbl = curve.NewEdwardsBasepointTable(&P)
	sh.ep = curve.NewExpandedEdwardsPoint(&P)
	var RP curve.RistrettoPoint
	RP.MulBasepoint(curve.RISTRETTO_BASEPOINT_TABLE, scalar.NewFromUint64(54321))
	sh.erp = curve.NewExpandedRistrettoPoint(&RP)
	sh.t0 = merlin.NewTranscript("verif-shared")
	sh.t0.AppendMessage("init", []byte("shared origin"))
	if sh.xpub, sh.xpriv, err = x25519.GenerateKey(NewDetReader(5)); err != nil {
		panic(err)
	}
	sh.vopts = &ed25519.VerifyOptions{AllowSmallOrderR: true, AllowNonCanonicalA: true}
	sh.optsSV = &ed25519.Options{Context: "shared-ctx", AddedRandomness: true, SelfVerify: true, Verify: sh.vopts}
	sh.optsVer = &ed25519.Options{Context: "shared-ctx", Verify: sh.vopts}
	for i := 0; i < cNumKeys; i++ {
		sg, err := sh.priv[i].Sign(nil, sh.msgs[i], &ed25519.Options{Context: "shared-ctx"})
		if err != nil {
			panic(err)
		}
		sh.sigCtx = append(sh.sigCtx, sg)
	}
	sh.longDST = bytes.Repeat([]byte("verif-long-dst/"), 20) // 300 bytes
	sh.enc = make([][]byte, encCount)
	must := func(b []byte, err error) []byte {
		if err != nil {
			panic(err)
		}
		return b
	}
	for i := 0; i < cNumKeys; i++ {
		sh.enc[encSrSig+i] = must(sh.ssigs[i].MarshalBinary())
	}
	sh.enc[encSrPub] = must(sh.spk.MarshalBinary())
	sh.enc[encSrSec] = must(sh.skp.SecretKey().MarshalBinary())
	sh.enc[encSrKp] = must(sh.skp.MarshalBinary())
	mini := sha512.Sum512_256([]byte("c18c mini secret"))
	sh.enc[encSrMini] = mini[:]
	sh.enc[encEdPt] = edBytes(&P)
	sh.enc[encRisPt] = risBytes(&RP)
	wide := sha512.Sum512([]byte("c18c wide"))
	sh.enc[encWide] = wide[:]
	sh.enc[encProof] = ecvrf.Prove(sh.priv[0], sh.msgs[0])
	xs := sha512.Sum512_256([]byte("c18c x25519 scalar")) // deliberately unclamped
	xs[0] |= 7
	xs[31] |= 0x80
	sh.enc[encXScalar] = xs[:]
	sh.enc[encXPoint] = clone(sh.xpub[:])
	sh.enc[encXPoint][31] |= 0x80 // high bit set: must be masked in a copy, not in place
	sh.enc[encCanon] = must(scal(4242).MarshalBinary())
	return sh
}

const cNumOps = 26

var cOpNames = [cNumOps]string{"ed.Sign", "ed.Verify", "ed.VerifyExpanded(shared key)", "cache.Verifier.Verify(shared)", "ed.Batch(shared expanded keys)",
	"x25519.X25519(Basepoint)", "sr.Sign+Verify(shared ctx,keypair)", "ecvrf.Prove+Verify", "h2c.XOF(shared shake)", "ed.Sign(hedged,selfverify)",
	"ed.NewKeyFromSeed", "x25519.EdKeyConversions", "curve.MulBasepoint(shared user table)", "curve.ExpandedDoubleScalarMul(shared)", "ristretto.MulBasepoint+Expanded(shared)",
	"merlin.Clone(shared origin)", "sr.Batch(shared keys)", "x25519.DH(shared keys)", "curve.MultiscalarMulVartime(package tables)", "h2c.XMD+ristretto",
	"ed.Sign(hedged, entropy reader fails)", "curve.MultiscalarMulVartime(>=190 terms: Pippenger)", "ed.VerifyBatchOnly(>=95 entries: Pippenger)",
	"default entropy (nil readers): every entry point that falls back to the system source",
	"decoders over shared wire encodings (sr25519, curve, scalar, x25519, ecvrf)",
	"values returned by accessors of shared objects, used in place"}

func scal(i int) *scalar.Scalar {
	d := sha512.Sum512([]byte{'s', byte(i), byte(i >> 8)})
	s, err := scalar.NewFromBytesModOrderWide(d[:])
	if err != nil {
		panic(err)
	}
	return s
}

func edBytes(p *curve.EdwardsPoint) []byte {
	var c curve.CompressedEdwardsY
	c.SetEdwardsPoint(p)
	return c[:]
}

func risBytes(p *curve.RistrettoPoint) []byte {
	var c curve.CompressedRistretto
	c.SetRistrettoPoint(p)
	return c[:]
}

func bb(b bool) byte {
	if b {
		return 1
	}
	return 0
}

// op executes operation (kind, i) and returns its canonical output bytes.  It is
// a pure function of (kind, i) and the deterministic construction of sh.
func (sh *cShared) op(kind, i int) []byte {
	k := i % cNumKeys
	switch kind {
	case 0:
		return ed25519.Sign(sh.priv[k], sh.msgs[k])
	case 1:
		return []byte{bb(ed25519.Verify(sh.pub[k], sh.msgs[k], sh.sigs[(k+i/4%2)%cNumKeys]))}
	case 2:
		return []byte{bb(ed25519.VerifyExpanded(sh.exp[k], sh.msgs[k], sh.sigs[(k+i/4%2)%cNumKeys]))}
	case 3:
		return []byte{bb(sh.cv.Verify(sh.pub[k], sh.msgs[k], sh.sigs[k]))}
	case 4:
		v := ed25519.NewBatchVerifier()
		for j := 0; j < cNumKeys; j++ {
			v.AddExpanded(sh.exp[j], sh.msgs[j], sh.sigs[(j+i%3/2)%cNumKeys])
		}
		ok, res := v.Verify(NewDetReader(uint64(i)))
		out := []byte{bb(ok)}
		for _, r := range res {
			out = append(out, bb(r))
		}
		return out
	case 5:
		o, err := x25519.X25519(sh.priv[k][:32], x25519.Basepoint)
		if err != nil {
			return []byte(err.Error())
		}
		return o
	case 6:
		// the shared context through each of its three transcript constructors
		mk := func() *sr25519.SigningTranscript {
			switch i / cNumKeys % 3 {
			case 0:
				return sh.sctx.NewTranscriptBytes(sh.msgs[k])
			case 1:
				h := sha512.New()
				h.Write(sh.msgs[k])
				return sh.sctx.NewTranscriptHash(h)
			default:
				x := sha3.NewShake256()
				x.Write(sh.msgs[k])
				return sh.sctx.NewTranscriptXOF(x)
			}
		}
		st := mk()
		sig, err := sh.skp.Sign(NewDetReader(uint64(i)), st)
		if err != nil {
			return []byte(err.Error())
		}
		b, _ := sig.MarshalBinary()
		ok := sh.spk.Verify(mk(), sig)
		return append(b, bb(ok))
	case 7:
		pi := ecvrf.Prove(sh.priv[k], sh.msgs[k])
		ok, beta := ecvrf.Verify(sh.pub[k], pi, sh.msgs[k])
		return append(append(pi, beta...), bb(ok))
	case 8:
		dst := []byte("verif-dst")
		if i/cNumKeys%2 == 1 {
			dst = sh.longDST // the over-long tag is hashed down first: with what?
		}
		p, err := h2c.Edwards25519_XOF_ELL2_RO(sh.shake, dst, sh.msgs[k])
		if err != nil {
			return []byte(err.Error())
		}
		out := make([]byte, 40)
		if err := h2c.ExpandMessageXOF(out, sh.shake, dst, sh.msgs[k]); err != nil {
			return []byte(err.Error())
		}
		return append(edBytes(p), out...)
	case 9:
		// signers and verifiers passing the same option structs
		s, err := sh.priv[k].Sign(NewDetReader(uint64(i)), sh.msgs[k], sh.optsSV)
		if err != nil {
			return []byte(err.Error())
		}
		ok1 := ed25519.VerifyWithOptions(sh.pub[k], sh.msgs[k], s, sh.optsVer)
		ok2 := ed25519.VerifyWithOptions(sh.pub[k], sh.msgs[k], sh.sigCtx[(k+i/4%2)%cNumKeys], sh.optsVer)
		ok3 := sh.cv.VerifyWithOptions(sh.pub[k], sh.msgs[k], sh.sigCtx[k], sh.optsVer)
		return append(s, bb(ok1), bb(ok2), bb(ok3))
	case 10:
		seed := sha512.Sum512_256([]byte{'n', byte(i)})
		return ed25519.NewKeyFromSeed(seed[:])
	case 11:
		xs := x25519.EdPrivateKeyToX25519(sh.priv[k])
		xp, ok := x25519.EdPublicKeyToX25519(sh.pub[k])
		return append(append(xs, xp...), bb(ok))
	case 12:
		var p curve.EdwardsPoint
		p.MulBasepoint(sh.tbl, scal(i))
		return edBytes(&p)
	case 13:
		var p curve.EdwardsPoint
		p.ExpandedDoubleScalarMulBasepointVartime(scal(i), sh.ep, scal(i+1))
		return edBytes(&p)
	case 14:
		var p, q curve.RistrettoPoint
		p.MulBasepoint(curve.RISTRETTO_BASEPOINT_TABLE, scal(i))
		q.ExpandedDoubleScalarMulBasepointVartime(scal(i), sh.erp, scal(i+2))
		return append(risBytes(&p), risBytes(&q)...)
	case 15:
		c := sh.t0.Clone()
		c.AppendMessage("task", []byte{byte(i)})
		out := make([]byte, 40)
		c.ExtractBytes(out, "chal")
		return out
	case 16:
		v := sr25519.NewBatchVerifier()
		for j := 0; j < cNumKeys; j++ {
			v.Add(sh.spk, sh.sctx.NewTranscriptBytes(sh.msgs[j]), sh.ssigs[(j+i%3/2)%cNumKeys])
		}
		ok, res := v.Verify(NewDetReader(uint64(i)))
		out := []byte{bb(ok)}
		for _, r := range res {
			out = append(out, bb(r))
		}
		return out
	case 17:
		ss := sh.xpriv.DiffieHellman(sh.xpub)
		return append(ss[:], sh.xpriv.Public()[:]...)
	case 18:
		n := 3 + i%5
		ss := make([]*scalar.Scalar, n)
		ps := make([]*curve.EdwardsPoint, n)
		for j := range ss {
			ss[j] = scal(i + j)
			ps[j] = curve.EIGHT_TORSION[j%8]
			if j%2 == 0 {
				ps[j] = curve.ED25519_BASEPOINT_POINT
			} else if j%3 == 0 {
				ps[j] = sh.pt
			}
		}
		var p, q curve.EdwardsPoint
		p.MultiscalarMulVartime(ss, ps)
		q.MultiscalarMul(ss, ps)
		return append(edBytes(&p), edBytes(&q)...)
	case 21:
		n := 190 + i%12
		ss := make([]*scalar.Scalar, n)
		ps := make([]*curve.EdwardsPoint, n)
		for j := range ss {
			ss[j] = scal(i + j%7)
			ps[j] = curve.ED25519_BASEPOINT_POINT
			if j%3 == 1 {
				ps[j] = sh.pt
			} else if j%5 == 2 {
				ps[j] = curve.EIGHT_TORSION[j%8]
			}
		}
		var p curve.EdwardsPoint
		p.MultiscalarMulVartime(ss, ps)
		var rp curve.RistrettoPoint
		rps := make([]*curve.RistrettoPoint, n)
		for j := range rps {
			rps[j] = curve.RISTRETTO_BASEPOINT_POINT
		}
		rp.MultiscalarMulVartime(ss, rps)
		return append(edBytes(&p), risBytes(&rp)...)
	case 22:
		v := ed25519.NewBatchVerifier()
		n := 95 + i%10
		for j := 0; j < n; j++ {
			k := j % cNumKeys
			if i%2 == 0 {
				v.Add(sh.pub[k], sh.msgs[k], sh.sigs[k])
			} else {
				v.AddExpanded(sh.exp[k], sh.msgs[k], sh.sigs[k])
			}
		}
		return []byte{bb(v.VerifyBatchOnly(NewDetReader(uint64(i))))}
	case 23:
		// The default-entropy path (rand == nil -> the system source) is shared package state too.
		// The random bytes themselves never reach the log: only facts that hold for every entropy.
		pub, priv, err := ed25519.GenerateKey(nil)
		out := []byte{bb(err == nil && len(pub) == 32 && len(priv) == 64)}
		s, err := sh.priv[k].Sign(nil, sh.msgs[k], &ed25519.Options{AddedRandomness: true})
		out = append(out, bb(err == nil && ed25519.Verify(sh.pub[k], sh.msgs[k], s)))
		v := ed25519.NewBatchVerifier()
		v.Add(sh.pub[k], sh.msgs[k], sh.sigs[k])
		v.AddExpanded(sh.exp[(k+1)%cNumKeys], sh.msgs[(k+1)%cNumKeys], sh.sigs[(k+1)%cNumKeys])
		ok, _ := v.Verify(nil)
		out = append(out, bb(ok), bb(v.VerifyBatchOnly(nil)))
		sv := sr25519.NewBatchVerifier()
		sv.Add(sh.spk, sh.sctx.NewTranscriptBytes(sh.msgs[k]), sh.ssigs[k])
		sok, _ := sv.Verify(nil)
		ssig, serr := sh.skp.Sign(nil, sh.sctx.NewTranscriptBytes(sh.msgs[k]))
		out = append(out, bb(sok), bb(serr == nil && sh.spk.Verify(sh.sctx.NewTranscriptBytes(sh.msgs[k]), ssig)))
		// every other entry point that falls back to the system source
		pi, perr := ecvrf.ProveWithAddedRandomness(nil, sh.priv[k], sh.msgs[k])
		vok, _ := ecvrf.Verify(sh.pub[k], pi, sh.msgs[k])
		out = append(out, bb(perr == nil && vok))
		xpub, xpriv, xerr := x25519.GenerateKey(nil)
		out = append(out, bb(xerr == nil && xpub != nil && *xpriv.Public() == *xpub))
		kp, kerr := sr25519.GenerateKeyPair(nil)
		msk, merr := sr25519.GenerateMiniSecretKey(nil)
		sk, skerr := sr25519.GenerateSecretKey(nil)
		out = append(out, bb(kerr == nil && kp != nil), bb(merr == nil && msk != nil), bb(skerr == nil && sk != nil))
		var rs scalar.Scalar
		_, rserr := rs.SetRandom(nil)
		var rpt curve.RistrettoPoint
		_, rperr := rpt.SetRandom(nil)
		out = append(out, bb(rserr == nil && rs.IsCanonical()), bb(rperr == nil))
		trng, terr := sh.t0.Clone().BuildRng().RekeyWithWitnessBytes("w", sh.msgs[k]).Finalize(nil)
		tb := make([]byte, 16)
		if terr == nil {
			_, terr = trng.Read(tb)
		}
		out = append(out, bb(terr == nil))
		return out
	case 24:
		return sh.decodeShared(i)
	case 25:
		// what an accessor returns is the caller's to overwrite: p := tbl.Basepoint(); p.Mul(p, s)
		p := curve.ED25519_BASEPOINT_TABLE.Basepoint()
		p.Mul(p, scal(i))
		q := sh.tbl.Basepoint()
		q.Add(q, p)
		rp := curve.RISTRETTO_BASEPOINT_TABLE.Basepoint()
		rp.Mul(rp, scal(i+1))
		e := sh.ep.Point()
		e.Neg(e)
		er := sh.erp.Point()
		er.Add(er, rp)
		xp := sh.xpriv.Public()
		xp2 := *xp
		for j := range xp {
			xp[j] ^= 0x5a // a copy of the public key, or the key pair's own?
		}
		out := append(append(append(append(edBytes(p), edBytes(q)...), risBytes(rp)...), edBytes(e)...), risBytes(er)...)
		// ... and the next caller of the same accessors gets the real thing
		out = append(out, edBytes(curve.ED25519_BASEPOINT_TABLE.Basepoint())...)
		out = append(out, risBytes(curve.RISTRETTO_BASEPOINT_TABLE.Basepoint())...)
		out = append(out, edBytes(sh.tbl.Basepoint())...)
		out = append(out, edBytes(sh.ep.Point())...)
		out = append(out, risBytes(sh.erp.Point())...)
		out = append(out, bb(*sh.xpriv.Public() == xp2))
		return out
	case 20:
		// a fault in one call must not poison later calls: the reader fails after i%32 bytes
		s, err := sh.priv[k].Sign(&failingReader{left: i % 32}, sh.msgs[k], &ed25519.Options{AddedRandomness: true, Context: "ctx"})
		if err != nil {
			return []byte("error")
		}
		return s
	default:
		p, err := h2c.Edwards25519_XMD_ELL2_NU(crypto.SHA512, []byte("verif-dst"), sh.msgs[k])
		if err != nil {
			return []byte(err.Error())
		}
		q, err := h2c.Ristretto255_XOF_R255MAP_RO(sh.shake, []byte("verif-dst"), sh.msgs[k])
		if err != nil {
			return []byte(err.Error())
		}
		return append(edBytes(p), risBytes(q)...)
	}
}

// decodeShared parses the shared wire encodings with every decoder of the public API
// and returns the re-encodings: inputs are read-only to a decoder, so any number of
// callers may parse the same bytes at once.
func (sh *cShared) decodeShared(i int) []byte {
	var out []byte
	add := func(b []byte, err error) {
		if err != nil {
			out = append(out, []byte("error:"+err.Error())...)
		}
		out = append(out, b...)
		out = append(out, '|')
	}
	k := i % cNumKeys
	if sig, err := sr25519.NewSignatureFromBytes(sh.enc[encSrSig+k]); err != nil {
		add(nil, err)
	} else {
		add(sig.MarshalBinary())
		out = append(out, bb(sh.spk.Verify(sh.sctx.NewTranscriptBytes(sh.msgs[k]), sig)))
	}
	var sig2 sr25519.Signature
	if err := sig2.UnmarshalBinary(sh.enc[encSrSig+(k+1)%cNumKeys]); err != nil {
		add(nil, err)
	} else {
		add(sig2.MarshalBinary())
	}
	if pk, err := sr25519.NewPublicKeyFromBytes(sh.enc[encSrPub]); err != nil {
		add(nil, err)
	} else {
		add(pk.MarshalBinary())
	}
	if sk, err := sr25519.NewSecretKeyFromBytes(sh.enc[encSrSec]); err != nil {
		add(nil, err)
	} else {
		add(sk.MarshalBinary())
		add(sk.PublicKey().MarshalBinary())
	}
	if kp, err := sr25519.NewKeyPairFromBytes(sh.enc[encSrKp]); err != nil {
		add(nil, err)
	} else {
		add(kp.MarshalBinary())
	}
	if msk, err := sr25519.NewMiniSecretKeyFromBytes(sh.enc[encSrMini]); err != nil {
		add(nil, err)
	} else {
		add(msk.ExpandUniform().MarshalBinary())
		add(msk.ExpandEd25519().MarshalBinary())
	}
	if sk, err := sr25519.NewSecretKeyFromEd25519Bytes(sh.enc[encWide]); err != nil {
		add(nil, err)
	} else {
		add(sk.MarshalBinary())
	}
	var ep curve.EdwardsPoint
	if err := ep.UnmarshalBinary(sh.enc[encEdPt]); err != nil {
		add(nil, err)
	} else {
		add(edBytes(&ep), nil)
	}
	var cy curve.CompressedEdwardsY
	if _, err := cy.SetBytes(sh.enc[encEdPt]); err != nil {
		add(nil, err)
	} else {
		add(cy[:], nil)
	}
	var rp curve.RistrettoPoint
	if err := rp.UnmarshalBinary(sh.enc[encRisPt]); err != nil {
		add(nil, err)
	} else {
		add(risBytes(&rp), nil)
	}
	if _, err := rp.SetUniformBytes(sh.enc[encWide]); err != nil {
		add(nil, err)
	} else {
		add(risBytes(&rp), nil)
	}
	var mp curve.MontgomeryPoint
	if _, err := mp.SetBytes(sh.enc[encXPoint]); err != nil {
		add(nil, err)
	} else {
		add(mp[:], nil)
	}
	var sc scalar.Scalar
	if _, err := sc.SetBytesModOrderWide(sh.enc[encWide]); err != nil {
		add(nil, err)
	} else {
		add(sc.MarshalBinary())
	}
	if _, err := sc.SetBytesModOrder(sh.enc[encXScalar]); err != nil {
		add(nil, err)
	} else {
		add(sc.MarshalBinary())
	}
	if _, err := sc.SetBits(sh.enc[encSrMini]); err != nil {
		add(nil, err)
	} else {
		var b [32]byte
		sc.ToBytes(b[:])
		add(b[:], nil)
	}
	if _, err := sc.SetCanonicalBytes(sh.enc[encCanon]); err != nil {
		add(nil, err)
	} else {
		add(sc.MarshalBinary())
	}
	if err := sc.UnmarshalBinary(sh.enc[encCanon]); err != nil {
		add(nil, err)
	} else {
		add(sc.MarshalBinary())
	}
	add(ecvrf.ProofToHash(sh.enc[encProof]))
	ok, beta := ecvrf.Verify(sh.pub[0], sh.enc[encProof], sh.msgs[0])
	add(append(beta, bb(ok)), nil)
	add(x25519.X25519(sh.enc[encXScalar], sh.enc[encXPoint]))
	var dst, in, base [32]byte
	copy(in[:], sh.enc[encXScalar])
	copy(base[:], sh.enc[encXPoint])
	x25519.ScalarMult(&dst, &in, &base)
	add(dst[:], nil)
	if _, err := ed25519.NewExpandedPublicKey(sh.enc[encEdPt]); err != nil {
		add(nil, err)
	}
	add(ed25519.NewKeyFromSeed(sh.enc[encSrMini]), nil)
	return out
}

var (
	cC_ops      = core.RegCounter("c18c.ops")
	cC_switches = core.RegCounter("c18c.context_switches")
	cC_refs     = core.RegCounter("c18c.reference_results_computed")
	cC_inop     = core.RegCounter("c18e.switches_inside_a_library_operation")
	cC_kind     [cNumOps]int
	cRef        *cShared
	cRefMemo    = map[[2]int][]byte{}
)

func init() {
	for i := range cC_kind {
		cC_kind[i] = core.RegCounter("c18c.op." + cOpNames[i])
	}
	Register(&Workload{
		Name:     "C18C",
		Property: "C18",
		Phase:    "C: whole-library race freedom inside the deterministic schedule",
		Variants: []string{"instr-race"},
		Rule: "per run: 3..6 tasks x 3..8 operations over 25 operation kinds of the public API (incl. every decoder parsing the same shared wire encodings), all tasks sharing freshly built objects (expanded public keys, a user-built base-point table, expanded points, one caching verifier over the real LRU, one sr25519 context and key pair, one pre-absorbed SHAKE prototype, one Merlin transcript that every task clones, x25519.Basepoint, the package tables); -race build with raw-syscall token hand-off; " +
			"oracle: zero race reports and each result byte-identical to the same call executed alone on a pristine twin of the shared objects; non-trivial = at least two tasks and two context switches; distinct = distinct event-log digests",
		Real: []string{"the whole library (ed25519, cache, ecvrf, x25519, sr25519, merlin, h2c, curve, scalar)", "Go race detector"},
		Stub: []string{"goroutine scheduler (rt, raw pipe hand-off)", "entropy: deterministic readers"},
		Run:  runC18C,
	})
	Register(&Workload{
		Name:     "C18E",
		Property: "C18",
		Phase:    "E: preemption between the statements of the protocol layer",
		Variants: []string{"instrw", "instrw-race"},
		Rule: "the scripts, shared objects and oracle of phase C, on a build whose statement-yield overlay covers every non-test file under primitives/ (ed25519, sr25519, merlin, ecvrf, x25519, h2c, cache): tasks are preempted between the statements of Sign, Verify, batch verification, transcript construction etc., so shared mutable state that is not a data race at operation granularity (a package-level scratch buffer reused within one call, a memo keyed on the last caller) produces a wrong result under some schedule; " +
			"oracle: each result byte-identical to the same call executed alone on a pristine twin (and zero race reports on the race variant); non-trivial = at least one context switch while the leaving task was inside a library operation; distinct = distinct event-log digests",
		Real: []string{"the whole library; statement yields spliced into primitives/**"},
		Stub: []string{"goroutine scheduler (rt)", "entropy: deterministic readers"},
		Run:  runC18C,
	})
}

// optsSV0 / optsVer0: what the shared option structs were built as (the Verify pointer of the twin is its own)
func (sh *cShared) optsSV0() *ed25519.Options {
	return &ed25519.Options{Context: "shared-ctx", AddedRandomness: true, SelfVerify: true, Verify: sh.vopts}
}

func (sh *cShared) optsVer0() *ed25519.Options {
	return &ed25519.Options{Context: "shared-ctx", Verify: sh.vopts}
}

// cPackageLevelIntact compares the exported package-level points and tables with their definitions:
// the RFC 8032 base point (y = 4/5, x even), the RFC 9496 generator, the identity as first torsion point.
func cPackageLevelIntact() string {
	edB, _ := hex.DecodeString("5866666666666666666666666666666666666666666666666666666666666666")
	risB, _ := hex.DecodeString("e2f2ae0a6abc4e71a884a961c500515f58e30b6aa582dd8db6a65945e08d2d76")
	switch {
	case !bytes.Equal(edBytes(curve.ED25519_BASEPOINT_POINT), edB):
		return "curve.ED25519_BASEPOINT_POINT no longer encodes to the RFC 8032 base point"
	case !bytes.Equal(edBytes(curve.ED25519_BASEPOINT_TABLE.Basepoint()), edB):
		return "curve.ED25519_BASEPOINT_TABLE.Basepoint() is no longer the RFC 8032 base point"
	case !bytes.Equal(risBytes(curve.RISTRETTO_BASEPOINT_POINT), risB):
		return "curve.RISTRETTO_BASEPOINT_POINT no longer encodes to the RFC 9496 generator"
	case !bytes.Equal(risBytes(curve.RISTRETTO_BASEPOINT_TABLE.Basepoint()), risB):
		return "curve.RISTRETTO_BASEPOINT_TABLE.Basepoint() is no longer the RFC 9496 generator"
	case !curve.EIGHT_TORSION[0].IsIdentity() || curve.EIGHT_TORSION[1].IsIdentity():
		return "curve.EIGHT_TORSION changed"
	case x25519.Basepoint[0] != 9 || !bytes.Equal(x25519.Basepoint[1:], make([]byte, 31)):
		return "x25519.Basepoint is no longer 9"
	}
	var one curve.EdwardsPoint
	one.MulBasepoint(curve.ED25519_BASEPOINT_TABLE, scalar.NewFromUint64(1))
	if !bytes.Equal(edBytes(&one), edB) {
		return "[1]B through curve.ED25519_BASEPOINT_TABLE is no longer the base point"
	}
	return ""
}

type failingReader struct{ left int }

func (f *failingReader) Read(p []byte) (int, error) {
	if f.left <= 0 {
		return 0, fmt.Errorf("injected entropy failure")
	}
	n := len(p)
	if n > f.left {
		n = f.left
	}
	for i := 0; i < n; i++ {
		p[i] = byte(f.left)
	}
	f.left -= n
	return n, nil
}

type cOp struct{ kind, i int }

func runC18C(e *Env, r *core.Run) {
	t := r.T
	ntasks := 3 + t.W(4)
	scripts := make([][]cOp, ntasks)
	focus := t.W(cNumOps + 4) // some runs hammer one kind from all tasks
	total := 0
	for i := range scripts {
		n := 3 + t.W(6)
		for j := 0; j < n; j++ {
			o := cOp{t.W(cNumOps), t.W(24)}
			if focus < cNumOps && t.W(2) == 0 {
				o.kind = focus
			}
			if o.kind >= 21 && o.kind <= 23 && t.W(3) != 2 {
				o.kind = t.W(21) // the two Pippenger-sized operations are expensive: keep one in three
			}
			scripts[i] = append(scripts[i], o)
			total++
		}
	}
	r.Ev("cfg tasks=%d ops=%d focus=%d", ntasks, total, focus)
	sh := newCShared()
	sim := e.Sim
	est := total * 4
	if e.Wide {
		est = total * 120 // statement yields inside the protocol layer
	}
	sim.Begin(rt.Config{Draw: func(n int) int { return t.Draw(core.SS, n) }, EstYields: est, MaxYields: uint64(total*200000 + 10000)})
	logs := make([]*core.Log, ntasks)
	got := make([][][]byte, ntasks)
	for i := range logs {
		logs[i] = r.NewLog(i)
		got[i] = make([][]byte, len(scripts[i]))
	}
	sim.OnPanic = func(task int, val interface{}, stack []byte) {
		msg := fmt.Sprint(val)
		logs[task].Fail("panic", normPanic(msg), "task %d panicked: %s", task, msg)
	}
	for i := range scripts {
		i := i
		sim.Spawn(func(task int) {
			l := logs[i]
			for j, o := range scripts[i] {
				rt.Yield(3902)
				l.Ev("invoke %s #%d", cOpNames[o.kind], o.i)
				rt.EnterOp()
				out := sh.op(o.kind, o.i)
				rt.ExitOp()
				got[i][j] = out
				l.Ev("return %s #%d -> %s", cOpNames[o.kind], o.i, core.H(out))
				r.Count(cC_ops)
				r.Count(cC_kind[o.kind])
			}
		})
	}
	sim.Run()
	r.AddSteps(sim.Yields)
	r.CountN(cC_switches, int64(sim.Switches))
	r.Nontrivial = sim.Switches >= 2
	if e.Wide {
		r.Nontrivial = sim.SwitchInOp >= 1
		r.CountN(cC_inop, int64(sim.SwitchInOp))
	}
	r.Ev("sched policy=%d yields=%d switches=%d hash=%x", sim.Policy(), sim.Yields, sim.Switches, sim.SchedHash)
	if sim.AbortClass != "" {
		r.Fail(sim.AbortClass, sim.AbortClass, "run aborted: %s", sim.AbortClass)
		return
	}
	// sequential reference on a pristine twin, computed after the join
	if cRef == nil {
		cRef = newCShared()
	}
	for i := range scripts {
		for j, o := range scripts[i] {
			key := [2]int{o.kind, o.i}
			want, ok := cRefMemo[key]
			if !ok {
				want = cRef.op(o.kind, o.i)
				cRefMemo[key] = want
				r.Count(cC_refs)
			}
			if !bytes.Equal(got[i][j], want) {
				r.Fail("sequential-equivalence", cOpNames[o.kind], "task %d op %d %s #%d returned %s under concurrency, %s when executed alone", i, j, cOpNames[o.kind], o.i, core.Hex8(got[i][j]), core.Hex8(want))
			}
		}
	}
	// the caller's SHAKE prototype must be untouched
	tw := sha3.NewShake128()
	tw.Write([]byte("pre-absorbed caller data"))
	a, b := make([]byte, 32), make([]byte, 32)
	sh.shake.Clone().Read(a)
	tw.Read(b)
	if !bytes.Equal(a, b) {
		r.Fail("shared-object-mutated", "shake-prototype", "the caller's SHAKE prototype changed state after being passed to h2c")
	}
	// the package-level points and tables are what the RFCs say they are
	if msg := cPackageLevelIntact(); msg != "" {
		r.Fail("shared-object-mutated", "package-level-value", "%s", msg)
	}
	// and the option structs
	if *sh.optsSV != *sh.optsSV0() || *sh.optsVer != *sh.optsVer0() || *sh.vopts != *cRef.vopts {
		r.Fail("shared-object-mutated", "option-struct", "a shared Options / VerifyOptions value differs from what the caller put there")
	}
	// so must the wire encodings every task parsed
	for i := range sh.enc {
		if !bytes.Equal(sh.enc[i], cRef.enc[i]) {
			r.Fail("shared-object-mutated", "wire-encoding", "shared encoding %d was changed by a decoder: %s, was %s", i, core.Hex8(sh.enc[i]), core.Hex8(cRef.enc[i]))
		}
	}
}
