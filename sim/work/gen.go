package work

import (
	"crypto/sha512"

	"github.com/oasisprotocol/curve25519-voi/curve"
	"github.com/oasisprotocol/curve25519-voi/curve/scalar"
	"github.com/oasisprotocol/curve25519-voi/primitives/ed25519"

	"verifsim/core"
)

// Gen produces artifacts (keys, points, scalars, signatures) from the workload
// stream of the tape.  Bulk content is one draw + expansion (core.Expand).
type Gen struct {
	T *core.Tape
}

func (g *Gen) Bytes(n int) []byte { return g.T.Bytes(core.SW, n) }

func (g *Gen) Scalar() *scalar.Scalar {
	s, err := scalar.NewFromBytesModOrderWide(g.Bytes(64))
	if err != nil {
		panic(err)
	}
	return s
}

func (g *Gen) EdPoint() *curve.EdwardsPoint {
	var p curve.EdwardsPoint
	p.MulBasepoint(curve.ED25519_BASEPOINT_TABLE, g.Scalar())
	return &p
}

func (g *Gen) RisPoint() *curve.RistrettoPoint {
	var p curve.RistrettoPoint
	p.MulBasepoint(curve.RISTRETTO_BASEPOINT_TABLE, g.Scalar())
	return &p
}

// EdKey derives an Ed25519 key pair from a drawn seed.
func (g *Gen) EdKey() ed25519.PrivateKey {
	return ed25519.NewKeyFromSeed(g.Bytes(32))
}

// Msg draws a message with lengths biased to SHA-512 block seams.
func (g *Gen) Msg() []byte {
	t := g.T
	var n int
	switch t.W(4) {
	case 0:
		n = t.W(8)
	case 1:
		seams := []int{0, 1, 31, 32, 47, 48, 63, 64, 79, 80, 95, 96, 111, 112, 127, 128, 129, 191, 192, 255, 256}
		n = seams[t.W(len(seams))]
	case 2:
		n = t.W(300)
	default:
		n = t.W(64)
	}
	return g.Bytes(n)
}

var groupOrderL = [32]byte{0xed, 0xd3, 0xf5, 0x5c, 0x1a, 0x63, 0x12, 0x58, 0xd6, 0x9c, 0xf7, 0xa2, 0xde, 0xf9, 0xde, 0x14,
	0, 0, 0, 0, 0, 0, 0, 0, 0, 0, 0, 0, 0, 0, 0, 0x10}

// addL adds the group order to a 32-byte little-endian value in place and
// reports whether the sum still fits in 256 bits.
func addL(b []byte) bool {
	c := 0
	for j := 0; j < 32; j++ {
		v := int(b[j]) + int(groupOrderL[j]) + c
		b[j] = byte(v)
		c = v >> 8
	}
	return c == 0
}

// edSecretScalar returns the clamped secret scalar of an Ed25519 private key.
func edSecretScalar(priv ed25519.PrivateKey) *scalar.Scalar {
	h := sha512.Sum512(priv[:32])
	h[0] &= 248
	h[31] &= 127
	h[31] |= 64
	a, err := scalar.NewFromBits(h[:32])
	if err != nil {
		panic(err)
	}
	return a
}

func clone(b []byte) []byte { return append([]byte(nil), b...) }
