package work

import (
	"crypto/sha512"
	"encoding/hex"

	"github.com/oasisprotocol/curve25519-voi/curve"
	"github.com/oasisprotocol/curve25519-voi/curve/scalar"
	"github.com/oasisprotocol/curve25519-voi/primitives/ed25519"

	"verifsim/core"
)

// Gen produces artifacts (keys, points, scalars, signatures) from the workload
// stream of the tape.  Bulk content is one draw + expansion (core.Expand).
type Gen struct {
	T *core.Tape
}

func (g *Gen) Bytes(n int) []byte { return g.T.Bytes(core.SW, n) }

func (g *Gen) Scalar() *scalar.Scalar {
	s, err := scalar.NewFromBytesModOrderWide(g.Bytes(64))
	if err != nil {
		panic(err)
	}
	return s
}

func (g *Gen) EdPoint() *curve.EdwardsPoint {
	var p curve.EdwardsPoint
	p.MulBasepoint(curve.ED25519_BASEPOINT_TABLE, g.Scalar())
	return &p
}

func (g *Gen) RisPoint() *curve.RistrettoPoint {
	var p curve.RistrettoPoint
	p.MulBasepoint(curve.RISTRETTO_BASEPOINT_TABLE, g.Scalar())
	return &p
}

// EdKey derives an Ed25519 key pair from a drawn seed.  One key in sixteen comes from a short table of
// seeds whose public-key ENCODING lies at the edge of the encoding space (bytes 30 and 31 saturated, some
// also with byte 0 at or above 0xed): canonicity tests walk an encoding from the top and compare with
// p = 2^255-19, so for a uniformly drawn key everything below the first byte is dead code (2^-15 and 2^-19
// per key).  The seeds were found by plain search over NewKeyFromSeed; the table states nothing about the
// implementation, only which keys exist.
func (g *Gen) EdKey() ed25519.PrivateKey {
	if g.T.W(16) == 15 {
		seed, _ := hex.DecodeString(edgeSeeds[g.T.W(len(edgeSeeds))])
		return ed25519.NewKeyFromSeed(seed)
	}
	return ed25519.NewKeyFromSeed(g.Bytes(32))
}

// public keys: 30f9..93ff7f, 04d8..04ffff, 50c7..92ffff, a64c..60ff7f, eebb..d2ff7f, ee94..faff7f, f6bf..88ffff, faa1..d3ffff, f979..97ff7f
var edgeSeeds = []string{
	"76657269662073747275637475726564206b6579207365615aa9000000000000",
	"76657269662073747275637475726564206b657920736561be92000000000000",
	"76657269662073747275637475726564206b65792073656112fe000000000000",
	"76657269662073747275637475726564206b65792073656134ce010000000000",
	"76657269662073747275637475726564206b657920736561e536060000000000",
	"76657269662073747275637475726564206b657920736561cbe90a0000000000",
	"76657269662073747275637475726564206b657920736561f1a00e0000000000",
	"76657269662073747275637475726564206b657920736561d0bf190000000000",
	"76657269662073747275637475726564206b6579207365615f731a0000000000",
}

// Msg draws a message with lengths biased to SHA-512 block seams.
func (g *Gen) Msg() []byte {
	t := g.T
	var n int
	switch t.W(4) {
	case 0:
		n = t.W(8)
	case 1:
		seams := []int{0, 1, 31, 32, 47, 48, 63, 64, 79, 80, 95, 96, 111, 112, 127, 128, 129, 191, 192, 255, 256}
		n = seams[t.W(len(seams))]
	case 2:
		n = t.W(300)
	default:
		n = t.W(64)
	}
	return g.Bytes(n)
}

var groupOrderL = [32]byte{0xed, 0xd3, 0xf5, 0x5c, 0x1a, 0x63, 0x12, 0x58, 0xd6, 0x9c, 0xf7, 0xa2, 0xde, 0xf9, 0xde, 0x14,
	0, 0, 0, 0, 0, 0, 0, 0, 0, 0, 0, 0, 0, 0, 0, 0x10}

// addL adds the group order to a 32-byte little-endian value in place and
// reports whether the sum still fits in 256 bits.
func addL(b []byte) bool {
	c := 0
	for j := 0; j < 32; j++ {
		v := int(b[j]) + int(groupOrderL[j]) + c
		b[j] = byte(v)
		c = v >> 8
	}
	return c == 0
}

// edSecretScalar returns the clamped secret scalar of an Ed25519 private key.
func edSecretScalar(priv ed25519.PrivateKey) *scalar.Scalar {
	h := sha512.Sum512(priv[:32])
	h[0] &= 248
	h[31] &= 127
	h[31] |= 64
	a, err := scalar.NewFromBits(h[:32])
	if err != nil {
		panic(err)
	}
	return a
}

func clone(b []byte) []byte { return append([]byte(nil), b...) }

// Guarded places b at the start of a larger allocation followed by a pattern of
// guard bytes and hands out a slice whose CAPACITY extends over the guard (as a
// key read with os.ReadFile or cut out of a packet has).  A callee that appends to
// its argument, or writes past what it was given, changes the guard; one that
// modifies its argument changes the content.
type Guarded struct {
	buf  []byte
	n    int
	orig []byte
}

const guardLen = 48

func NewGuarded(b []byte) *Guarded {
	g := &Guarded{n: len(b), orig: clone(b)}
	g.buf = make([]byte, len(b)+guardLen)
	copy(g.buf, b)
	for i := 0; i < guardLen; i++ {
		g.buf[len(b)+i] = byte(0xA5 ^ i)
	}
	return g
}

// B is the slice to pass to the library: len(b) bytes, capacity len(b)+guardLen.
func (g *Guarded) B() []byte { return g.buf[:g.n] }

// Intact reports whether the content and the guard bytes are unchanged.
func (g *Guarded) Intact() (content, guard bool) {
	content = true
	for i := 0; i < g.n; i++ {
		if g.buf[i] != g.orig[i] {
			content = false
		}
	}
	guard = true
	for i := 0; i < guardLen; i++ {
		if g.buf[g.n+i] != byte(0xA5^i) {
			guard = false
		}
	}
	return
}

// PackedGuarded lays several byte strings out in ONE allocation, each followed by a
// small header gap, the last one followed by guard bytes - the shape of a key ring
// entry or a parsed packet ("key | header | input").  Every returned slice has spare
// capacity that covers whatever follows it in the buffer.
type PackedGuarded struct {
	buf  []byte
	orig []byte
	offs []int
	lens []int
}

const packGap = 5

func NewPackedGuarded(parts ...[]byte) *PackedGuarded {
	p := &PackedGuarded{}
	for _, b := range parts {
		p.offs = append(p.offs, len(p.buf))
		p.lens = append(p.lens, len(b))
		p.buf = append(p.buf, b...)
		for i := 0; i < packGap; i++ {
			p.buf = append(p.buf, byte(0xC3^i))
		}
	}
	for i := 0; i < guardLen; i++ {
		p.buf = append(p.buf, byte(0xA5^i))
	}
	p.buf = p.buf[:len(p.buf):len(p.buf)]
	p.orig = clone(p.buf)
	return p
}

// Part returns the i-th string: its own length, capacity up to the end of the buffer.
func (p *PackedGuarded) Part(i int) []byte { return p.buf[p.offs[i] : p.offs[i]+p.lens[i]] }

// Intact reports whether the whole buffer (contents, gaps, guard) is unchanged.
func (p *PackedGuarded) Intact() bool {
	for i := range p.buf {
		if p.buf[i] != p.orig[i] {
			return false
		}
	}
	return true
}
