package work

import (
	"bytes"
	"crypto"
	"crypto/sha512"
	"fmt"
	"io"

	"github.com/oasisprotocol/curve25519-voi/curve"
	"github.com/oasisprotocol/curve25519-voi/curve/scalar"
	"github.com/oasisprotocol/curve25519-voi/primitives/ed25519"
	"github.com/oasisprotocol/curve25519-voi/primitives/ed25519/extra/cache"
	"github.com/oasisprotocol/curve25519-voi/primitives/ed25519/extra/ecvrf"
	"github.com/oasisprotocol/curve25519-voi/primitives/merlin"
	"github.com/oasisprotocol/curve25519-voi/primitives/x25519"
)

// Second batch of C19 entry points: constructors, default-option forms, output
// buffers, private-key-taking provers, pre-hashed verification.
func c19MoreTargets() []c19Target {
	det := func() *DetReader { return NewDetReader(777) }
	genScalar := func(c *c19Ctx) []byte { return mustMarshal(c.g.Scalar().MarshalBinary()) }
	genEdSig := func(c *c19Ctx) []byte {
		c.priv = c.g.EdKey()
		c.aux["pk"] = clone(c.priv[32:])
		c.aux["msg"] = c.g.Msg()
		return ed25519.Sign(c.priv, c.aux["msg"])
	}
	genEdPk := func(c *c19Ctx) []byte {
		c.priv = c.g.EdKey()
		c.aux["msg"] = c.g.Msg()
		c.aux["sig"] = ed25519.Sign(c.priv, c.aux["msg"])
		return clone(c.priv[32:])
	}
	var ts []c19Target
	add := func(t c19Target) {
		ts = append(ts, t)
	}
	ctor := func(name string, size int, canonical bool, gen func(c *c19Ctx) []byte, f func(b []byte) (*scalar.Scalar, error)) {
		add(c19Target{name: name, size: size, gen: gen, canonical: canonical,
			try: func(c *c19Ctx, prev, b []byte) c19Res {
				s, err := f(b)
				if err != nil {
					if s != nil {
						return c19Res{bad: "non-nil scalar with error"}
					}
					return c19Res{}
				}
				if !canonical {
					return c19Res{ok: true}
				}
				return c19Res{ok: true, reenc: mustMarshal(s.MarshalBinary())}
			}})
	}
	ctor("scalar.NewFromCanonicalBytes", 32, true, genScalar, scalar.NewFromCanonicalBytes)
	ctor("scalar.NewFromBytesModOrder", 32, false, genScalar, scalar.NewFromBytesModOrder)
	ctor("scalar.NewFromBits", 32, false, genScalar, scalar.NewFromBits)
	ctor("scalar.NewFromBytesModOrderWide", 64, false, func(c *c19Ctx) []byte { return c.g.Bytes(64) }, scalar.NewFromBytesModOrderWide)
	add(c19Target{name: "scalar.Scalar.ToBytes(output buffer)", size: 32, gen: genScalar,
		try: func(c *c19Ctx, prev, b []byte) c19Res {
			// b is used as the destination: any length other than 32 must be refused
			s, err := scalar.NewFromCanonicalBytes(prev)
			if err != nil {
				panic("harness: prev scalar")
			}
			out := clone(b)
			err = s.ToBytes(out)
			return c19Res{ok: err == nil}
		}})
	// default-option forms
	add(c19Target{scalarAt: []int{32}, name: "ed25519.Verify(signature)", size: 64, gen: genEdSig,
		try: func(c *c19Ctx, prev, b []byte) c19Res {
			return c19Res{ok: ed25519.Verify(c.aux["pk"], c.aux["msg"], b)}
		}})
	add(c19Target{name: "ed25519.Verify(public key)", size: 32, gen: genEdPk, panicsOnLength: true,
		try: func(c *c19Ctx, prev, b []byte) c19Res {
			return c19Res{ok: ed25519.Verify(b, c.aux["msg"], c.aux["sig"])}
		}})
	add(c19Target{scalarAt: []int{32}, name: "ed25519.VerifyExpanded(signature)", size: 64, gen: genEdSig,
		try: func(c *c19Ctx, prev, b []byte) c19Res {
			e, err := ed25519.NewExpandedPublicKey(c.aux["pk"])
			if err != nil {
				panic("harness: expand")
			}
			return c19Res{ok: ed25519.VerifyExpanded(e, c.aux["msg"], b)}
		}})
	add(c19Target{scalarAt: []int{32}, name: "ed25519.BatchVerifier.Add+AddExpanded(signature)", size: 64, gen: genEdSig,
		try: func(c *c19Ctx, prev, b []byte) c19Res {
			e, _ := ed25519.NewExpandedPublicKey(c.aux["pk"])
			v := ed25519.NewBatchVerifier()
			v.Add(c.aux["pk"], c.aux["msg"], b)
			v.AddExpanded(e, c.aux["msg"], b)
			v.AddExpanded(nil, c.aux["msg"], b) // documented: a nil expanded key marks the entry invalid
			_, res := v.Verify(det())
			if len(res) != 3 || res[0] != res[1] || res[2] {
				return c19Res{ok: len(res) > 0 && res[0], bad: "Add / AddExpanded / AddExpanded(nil) results are inconsistent"}
			}
			return c19Res{ok: res[0]}
		}})
	add(c19Target{name: "cache.Verifier.Verify+Add(public key)", size: 32, gen: genEdPk,
		try: func(c *c19Ctx, prev, b []byte) c19Res {
			cv := cache.NewVerifier(cache.NewLRUCache(1))
			cv.AddPublicKey(prev)
			ok := cv.Verify(b, c.aux["msg"], c.aux["sig"])
			bv := ed25519.NewBatchVerifier()
			cv.Add(bv, b, c.aux["msg"], c.aux["sig"])
			_, res := bv.Verify(det())
			if len(res) != 1 || res[0] != ok {
				return c19Res{ok: ok, bad: "cached single and cached batch verification disagree"}
			}
			return c19Res{ok: ok}
		}})
	// batches whose entries use DIFFERENT option sets (cofactorless next to cofactored, ...)
	mixPresets := []*ed25519.VerifyOptions{ed25519.VerifyOptionsDefault, ed25519.VerifyOptionsStdLib, ed25519.VerifyOptionsFIPS_186_5, ed25519.VerifyOptionsZIP_215}
	for i := range mixPresets {
		for j := range mixPresets {
			if i == j {
				continue
			}
			oa, ob := &ed25519.Options{Verify: mixPresets[i]}, &ed25519.Options{Verify: mixPresets[j]}
			add(c19Target{scalarAt: []int{32}, name: fmt.Sprintf("ed25519.BatchVerifier[preset%d next to preset%d](signature)", i, j), size: 64, gen: genEdSig,
				try: func(c *c19Ctx, prev, b []byte) c19Res {
					good := ed25519.Sign(c.priv, c.aux["msg"])
					ex, _ := ed25519.NewExpandedPublicKey(c.aux["pk"])
					v := ed25519.NewBatchVerifier()
					v.AddWithOptions(c.aux["pk"], c.aux["msg"], b, oa)
					v.AddWithOptions(c.aux["pk"], c.aux["msg"], good, ob)
					v.AddExpandedWithOptions(ex, c.aux["msg"], good, oa)
					_ = v.VerifyBatchOnly(det())
					_, res := v.Verify(det())
					if len(res) != 3 || !res[1] || !res[2] {
						return c19Res{ok: len(res) > 0 && res[0], bad: "a valid entry of a mixed-option batch was reported invalid"}
					}
					return c19Res{ok: res[0]}
				}})
		}
	}
	// zero-value objects: an ExpandedPublicKey that was never initialised must simply not verify
	for i := range mixPresets {
		o := &ed25519.Options{Verify: mixPresets[i]}
		add(c19Target{scalarAt: []int{32}, name: fmt.Sprintf("ed25519.VerifyExpandedWithOptions[preset%d](zero-value expanded key, signature)", i), size: 64, gen: genEdSig,
			try: func(c *c19Ctx, prev, b []byte) c19Res {
				var zero ed25519.ExpandedPublicKey
				if ed25519.VerifyExpandedWithOptions(&zero, c.aux["msg"], b, o) || ed25519.VerifyExpandedWithOptions(new(ed25519.ExpandedPublicKey), c.aux["msg"], b, o) {
					return c19Res{ok: true, bad: "a zero-value expanded public key verified a signature"}
				}
				v := ed25519.NewBatchVerifier()
				v.AddExpandedWithOptions(&zero, c.aux["msg"], b, o)
				v.AddWithOptions(c.aux["pk"], c.aux["msg"], b, o)
				bo := v.VerifyBatchOnly(det())
				_, res := v.Verify(det())
				if bo || len(res) != 2 || res[0] {
					return c19Res{ok: true, bad: "a batch entry with a zero-value expanded public key was reported valid"}
				}
				return c19Res{ok: res[1]}
			}})
	}
	// scalar multiplication entry points fed with scalars built from untrusted bytes (structured
	// values included): they must return
	add(c19Target{name: "curve.*ScalarMul*Vartime(scalar from bytes)", size: 32, gen: genScalar, anyLength: false,
		try: func(c *c19Ctx, prev, b []byte) c19Res {
			s, err := scalar.NewFromBits(b)
			if err != nil {
				return c19Res{}
			}
			t2, _ := scalar.NewFromBits(prev)
			P := curve.EIGHT_TORSION[3]
			var o1, o2, o3, o4 curve.EdwardsPoint
			o1.TripleScalarMulBasepointVartime(s, P, t2, curve.ED25519_BASEPOINT_POINT)
			o2.TripleScalarMulBasepointVartime(t2, curve.ED25519_BASEPOINT_POINT, s, P)
			o3.DoubleScalarMulBasepointVartime(s, curve.ED25519_BASEPOINT_POINT, t2)
			ep := curve.NewExpandedEdwardsPoint(curve.ED25519_BASEPOINT_POINT)
			o4.ExpandedTripleScalarMulBasepointVartime(s, ep, t2, P)
			var r1 curve.RistrettoPoint
			r1.TripleScalarMulBasepointVartime(s, curve.RISTRETTO_BASEPOINT_POINT, t2, curve.RISTRETTO_BASEPOINT_POINT)
			_ = s.NonAdjacentForm(5)
			return c19Res{ok: true}
		}})
	// the trivial signature (R = identity, S = 0) under presets that allow small-order keys: it verifies
	// for a small-order key; a wrong-length key must be refused, not padded or truncated
	for _, pi := range []int{2, 3} {
		o := &ed25519.Options{Verify: mixPresets[pi]}
		for _, force := range []bool{false, true} {
			force := force
			add(c19Target{name: fmt.Sprintf("ed25519.BatchVerifier[preset%d, forceNoExpansion=%v](small-order public key, trivial signature)", pi, force), size: 32,
				gen: func(c *c19Ctx) []byte {
					c.aux["msg"] = c.g.Msg()
					triv := make([]byte, 64)
					triv[0] = 1
					c.aux["sig"] = triv
					return edBytes(curve.EIGHT_TORSION[c.g.T.W(8)])
				},
				try: func(c *c19Ctx, prev, b []byte) c19Res {
					v := ed25519.NewBatchVerifier()
					if force {
						v.ForceNoPublicKeyExpansion()
					}
					v.AddWithOptions(b, c.aux["msg"], c.aux["sig"], o)
					cv := cache.NewVerifier(cache.NewLRUCache(1))
					cv.AddWithOptions(v, b, c.aux["msg"], c.aux["sig"], o)
					bo := v.VerifyBatchOnly(det())
					_, res := v.Verify(det())
					if len(res) != 2 || res[0] != res[1] || bo != res[0] {
						return c19Res{ok: len(res) > 0 && res[0], bad: "direct, cached and batch-only results of one entry disagree"}
					}
					return c19Res{ok: res[0]}
				}})
		}
	}
	// X25519 with a point that is a PREFIX OF THE EXPORTED Basepoint slice (same memory): the
	// pointer-identity fast path must not run before the length check
	add(c19Target{name: "x25519.X25519(point aliasing the exported Basepoint)", size: 32,
		gen: func(c *c19Ctx) []byte { c.aux["scalar"] = c.g.Bytes(32); return clone(x25519.Basepoint) },
		try: func(c *c19Ctx, prev, b []byte) c19Res {
			p := b
			if len(b) >= 1 && len(b) <= 32 && bytes.Equal(b, x25519.Basepoint[:len(b)]) {
				p = x25519.Basepoint[:len(b)] // the very memory of the global, as a caller slicing it has
			}
			out, err := x25519.X25519(c.aux["scalar"], p)
			if err != nil && out != nil {
				return c19Res{bad: "output returned with error"}
			}
			return c19Res{ok: err == nil}
		}})
	// pre-hashed verification: the message is a 64-byte digest; any other length is a documented panic of
	// single verification and an invalid entry in a batch
	add(c19Target{name: "ed25519.VerifyWithOptions[ph](message digest)", size: 64,
		panicsOnLength: true,
		gen: func(c *c19Ctx) []byte {
			c.priv = c.g.EdKey()
			c.aux["pk"] = clone(c.priv[32:])
			d := sha512.Sum512(c.g.Msg())
			sig, err := c.priv.Sign(nil, d[:], &ed25519.Options{Hash: crypto.SHA512})
			if err != nil {
				panic("harness: ph sign")
			}
			c.aux["sig"] = sig
			return clone(d[:])
		},
		try: func(c *c19Ctx, prev, b []byte) c19Res {
			o := &ed25519.Options{Hash: crypto.SHA512}
			v := ed25519.NewBatchVerifier()
			v.AddWithOptions(c.aux["pk"], b, c.aux["sig"], o)
			bok, _ := v.Verify(det())
			if len(b) != 64 && bok {
				return c19Res{ok: true}
			}
			ok := ed25519.VerifyWithOptions(c.aux["pk"], b, c.aux["sig"], o)
			if ok != bok {
				return c19Res{ok: ok, bad: "single and batch pre-hashed verification disagree"}
			}
			return c19Res{ok: ok}
		}})
	// option structs: the context is caller-supplied bytes of any length; 0..255 are legal for Ed25519ctx / Ed25519ph,
	// anything longer is an error from Sign, an invalid batch entry, and the documented panic of the Verify forms
	add(c19Target{name: "ed25519.Options(context)", size: ed25519.ContextMaxSize, anyLength: true,
		docPanic: func(b []byte) bool { return len(b) > ed25519.ContextMaxSize },
		gen: func(c *c19Ctx) []byte {
			c.priv = c.g.EdKey()
			c.aux["pk"] = clone(c.priv[32:])
			c.aux["msg"] = c.g.Msg()
			return c.g.Bytes(ed25519.ContextMaxSize) // truncation visits every shorter length, extension 256, 257 and 510
		},
		try: func(c *c19Ctx, prev, b []byte) c19Res {
			tooLong := len(b) > ed25519.ContextMaxSize
			d := sha512.Sum512(c.aux["msg"])
			pk := ed25519.PublicKey(c.aux["pk"])
			hashes := []crypto.Hash{0, crypto.SHA512}
			if len(b)%2 == 1 {
				hashes[0], hashes[1] = hashes[1], hashes[0] // an over-long context ends the call at the first documented panic
			}
			for hi, h := range hashes {
				msg := c.aux["msg"]
				if h != 0 {
					msg = d[:]
				}
				o := &ed25519.Options{Hash: h, Context: string(b)}
				sig, err := c.priv.Sign(nil, msg, o)
				if err != nil && sig != nil {
					return c19Res{bad: "Sign returned a signature together with an error"}
				}
				if tooLong && err == nil {
					return c19Res{bad: "Sign produced a signature under a context longer than 255 bytes"}
				}
				if !tooLong && err != nil {
					return c19Res{bad: "Sign refused a context of legal length: " + err.Error()}
				}
				if tooLong {
					// a signature under the longest legal prefix: nothing may accept it under the long context
					if sig, err = c.priv.Sign(nil, msg, &ed25519.Options{Hash: h, Context: string(b[:ed25519.ContextMaxSize])}); err != nil {
						return c19Res{bad: "Sign refused a context of 255 bytes: " + err.Error()}
					}
				}
				v := ed25519.NewBatchVerifier()
				v.AddWithOptions(pk, msg, sig, o)
				if ek, err := ed25519.NewExpandedPublicKey(pk); err == nil {
					v.AddExpandedWithOptions(ek, msg, sig, o)
				}
				cv := cache.NewVerifier(cache.NewLRUCache(2))
				cv.AddWithOptions(v, pk, msg, sig, o)
				bok, res := v.Verify(det())
				if bok == tooLong || len(res) != 3 || res[0] == tooLong || res[1] == tooLong || res[2] == tooLong {
					return c19Res{bad: fmt.Sprintf("batch verification under a %d-byte context: ok=%v results=%v", len(b), bok, res)}
				}
				// the three single forms document a panic for an over-long context: one of them per input, last
				var ok bool
				switch (len(b) + hi + int(d[0])) % 3 {
				case 0:
					ok = ed25519.VerifyWithOptions(pk, msg, sig, o)
				case 1:
					ek, _ := ed25519.NewExpandedPublicKey(pk)
					ok = ed25519.VerifyExpandedWithOptions(ek, msg, sig, o)
				default:
					ok = cv.VerifyWithOptions(pk, msg, sig, o)
				}
				if ok == tooLong {
					return c19Res{bad: fmt.Sprintf("single verification under a %d-byte context = %v", len(b), ok)}
				}
			}
			return c19Res{ok: !tooLong}
		}})
	// "all option structs": the artifact is a 4-byte description of an Options value (hash identifier, context
	// length, the five VerifyOptions flags or a nil / package preset pointer, AddedRandomness, SelfVerify, message
	// shape); truncation, bit flips and block fills walk the struct space from a valid corner.  A struct is valid
	// exactly as the field documentation says: Hash is 0 or SHA-512 (then the message is 64 bytes), the context is
	// at most 255 bytes, AllowNonCanonicalR and CofactorlessVerify are not both set.
	add(c19Target{name: "ed25519.Options(struct)", size: 4, anyLength: true,
		docPanic: func(b []byte) bool { _, _, valid := c19DecodeOptions(b, nil); return !valid },
		gen: func(c *c19Ctx) []byte {
			c.priv = c.g.EdKey()
			c.aux["pk"] = clone(c.priv[32:])
			c.aux["msg"] = c.g.Msg()
			b := c.g.Bytes(4)
			b[0] %= 2
			b[1] %= 9
			if b[2]&0x18 == 0x18 {
				b[2] &^= 0x10
			}
			b[3] &^= 0x0c
			if b[0] == 1 {
				b[3] |= 4
			}
			return b
		},
		try: func(c *c19Ctx, prev, b []byte) c19Res {
			o, msg, valid := c19DecodeOptions(b, c.aux["msg"])
			pk := ed25519.PublicKey(c.aux["pk"])
			sig, err := c.priv.Sign(det(), msg, o)
			if err != nil && sig != nil {
				return c19Res{bad: "Sign returned a signature together with an error"}
			}
			if !valid && err == nil {
				return c19Res{bad: "Sign produced a signature under an invalid option struct"}
			}
			if valid && err != nil {
				return c19Res{bad: "Sign refused a valid option struct: " + err.Error()}
			}
			if !valid {
				// some well-formed signature by the same key, for the verification side
				sig = ed25519.Sign(c.priv, msg)
			}
			v := ed25519.NewBatchVerifier()
			v.AddWithOptions(pk, msg, sig, o)
			if ek, err := ed25519.NewExpandedPublicKey(pk); err == nil {
				v.AddExpandedWithOptions(ek, msg, sig, o)
			}
			bok, res := v.Verify(det())
			if bok != valid || len(res) != 2 || res[0] != valid || res[1] != valid {
				return c19Res{bad: fmt.Sprintf("batch verification under a valid=%v option struct: ok=%v results=%v", valid, bok, res)}
			}
			if bo := v.VerifyBatchOnly(det()); bo && !valid {
				return c19Res{bad: "VerifyBatchOnly accepted a batch whose option struct is invalid"}
			}
			// the single forms may panic (only) on an invalid struct
			if ok := ed25519.VerifyWithOptions(pk, msg, sig, o); ok != valid {
				return c19Res{bad: fmt.Sprintf("single verification under a valid=%v option struct = %v", valid, ok)}
			}
			return c19Res{ok: valid}
		}})
	// entropy streams are externally supplied bytes too: the artifact is what the reader delivers before it ends.
	// Fewer bytes than the call needs is an error; a failed call leaves its receiver as it was (a retry with a
	// working reader gives what a first attempt gives), never half-way.
	add(c19Target{name: "merlin.TranscriptRngBuilder.Finalize(entropy stream)", size: 32, anyLength: true,
		gen: func(c *c19Ctx) []byte { return c.g.Bytes(32) },
		try: func(c *c19Ctx, prev, b []byte) c19Res {
			build := func() *merlin.TranscriptRngBuilder {
				t := merlin.NewTranscript("c19 entropy")
				t.AppendMessage("m", prev)
				return t.BuildRng().RekeyWithWitnessBytes("w", prev)
			}
			read := func(rd io.Reader) []byte {
				out := make([]byte, 48)
				if _, err := rd.Read(out); err != nil {
					return []byte("read error")
				}
				return out
			}
			rb := build()
			rd, err := rb.Finalize(bytes.NewReader(b))
			if len(b) < 32 {
				if err == nil || rd != nil {
					return c19Res{ok: true, bad: fmt.Sprintf("Finalize succeeded on an entropy stream of %d bytes", len(b))}
				}
				good := append(clone(b), prev...)
				rd2, err2 := rb.Finalize(bytes.NewReader(good))
				rd3, err3 := build().Finalize(bytes.NewReader(good))
				if err2 != nil || err3 != nil {
					return c19Res{bad: "Finalize failed on a sufficient entropy stream"}
				}
				if !bytes.Equal(read(rd2), read(rd3)) {
					return c19Res{bad: "a failed Finalize changed the builder: the retry yields another stream than a first attempt with the same entropy"}
				}
				return c19Res{}
			}
			if err != nil {
				return c19Res{bad: "Finalize failed on a sufficient entropy stream: " + err.Error()}
			}
			rd3, _ := build().Finalize(bytes.NewReader(b[:32]))
			if !bytes.Equal(read(rd), read(rd3)) {
				return c19Res{bad: "Finalize depends on entropy bytes beyond the 32 it needs"}
			}
			return c19Res{ok: true}
		}})
	add(c19Target{name: "scalar.SetRandom / ristretto.SetRandom(entropy stream)", size: 64, anyLength: true,
		gen: func(c *c19Ctx) []byte { return c.g.Bytes(64) },
		try: func(c *c19Ctx, prev, b []byte) c19Res {
			var s scalar.Scalar
			var p curve.RistrettoPoint
			if _, err := s.SetBytesModOrderWide(append(clone(prev), prev...)[:64]); err != nil {
				return c19Res{bad: "harness scalar"}
			}
			p.MulBasepoint(curve.RISTRETTO_BASEPOINT_TABLE, &s)
			s0, p0 := mustMarshal(s.MarshalBinary()), risBytes(&p)
			rs, serr := s.SetRandom(bytes.NewReader(b))
			rp, perr := p.SetRandom(bytes.NewReader(b))
			if len(b) < 64 {
				if serr == nil || perr == nil || rs != nil || rp != nil {
					return c19Res{ok: true, bad: fmt.Sprintf("SetRandom succeeded on an entropy stream of %d bytes", len(b))}
				}
				s1, p1 := mustMarshal(s.MarshalBinary()), risBytes(&p)
				if !(bytes.Equal(s1, s0) || bytes.Equal(s1, zeros32)) || !(bytes.Equal(p1, p0) || bytes.Equal(p1, zeros32)) {
					return c19Res{bad: fmt.Sprintf("after a failed SetRandom the receivers encode to %x / %x: neither their previous values nor zero / identity", s1, p1)}
				}
				return c19Res{}
			}
			if serr != nil || perr != nil {
				return c19Res{bad: "SetRandom failed on a sufficient entropy stream"}
			}
			ws, _ := scalar.NewFromBytesModOrderWide(b[:64])
			var wp curve.RistrettoPoint
			if _, err := wp.SetUniformBytes(b[:64]); err != nil {
				return c19Res{bad: "SetUniformBytes failed on 64 bytes"}
			}
			if s.Equal(ws) != 1 || p.Equal(&wp) != 1 {
				return c19Res{bad: "SetRandom is not SetBytesModOrderWide / SetUniformBytes of the first 64 entropy bytes"}
			}
			return c19Res{ok: true}
		}})
	// ... and the hedged signers / provers: a stream that ends early is an error and no signature, and the failed
	// call leaves NOTHING behind - ordinary calls made afterwards (verification of a good signature, deterministic
	// signing, the retry with a working reader) give exactly what they gave before the failure.
	add(c19Target{name: "ed25519.Sign(added randomness: entropy stream), then ordinary use", size: 32, anyLength: true,
		gen: func(c *c19Ctx) []byte {
			c.priv = c.g.EdKey()
			c.aux["msg"] = c.g.Msg()
			c.aux["variant"] = []byte{byte(c.g.T.W(3))}
			return c.g.Bytes(32)
		},
		try: func(c *c19Ctx, prev, b []byte) c19Res {
			msg := c.aux["msg"]
			mk := func(hedged bool) *ed25519.Options {
				o := &ed25519.Options{AddedRandomness: hedged}
				switch c.aux["variant"][0] {
				case 1:
					o.Context = "c19 entropy stream"
				case 2:
					o.Hash, o.Context = crypto.SHA512, "ph"
				}
				return o
			}
			m := msg
			if c.aux["variant"][0] == 2 {
				d := sha512.Sum512(msg)
				m = d[:]
			}
			pub := ed25519.PublicKey(c.priv[32:])
			good := append(clone(b), prev...)[:32]
			detSig, err0 := c.priv.Sign(nil, m, mk(false))
			first, err1 := c.priv.Sign(bytes.NewReader(good), m, mk(true))
			if err0 != nil || err1 != nil {
				return c19Res{bad: "Sign failed on a well-formed request"}
			}
			sig, err := c.priv.Sign(bytes.NewReader(b), m, mk(true))
			if len(b) < 32 {
				if err == nil || sig != nil {
					return c19Res{ok: true, bad: fmt.Sprintf("Sign with added randomness succeeded on an entropy stream of %d bytes", len(b))}
				}
			} else if err != nil {
				return c19Res{bad: "Sign failed on a sufficient entropy stream: " + err.Error()}
			}
			// ordinary use afterwards
			if !ed25519.VerifyWithOptions(pub, m, detSig, mk(false)) {
				return c19Res{bad: "after the call a signature that verified before is rejected"}
			}
			again, err2 := c.priv.Sign(nil, m, mk(false))
			if err2 != nil || !bytes.Equal(again, detSig) {
				return c19Res{bad: "after the call deterministic signing gives another signature than before"}
			}
			retry, err3 := c.priv.Sign(bytes.NewReader(good), m, mk(true))
			if err3 != nil || !bytes.Equal(retry, first) {
				return c19Res{bad: "after the call signing with the same 32 entropy bytes gives another signature than a first attempt"}
			}
			return c19Res{ok: len(b) >= 32}
		}})
	add(c19Target{name: "ecvrf.ProveWithAddedRandomness(entropy stream), then ordinary use", size: 32, anyLength: true,
		gen: func(c *c19Ctx) []byte { c.priv = c.g.EdKey(); c.aux["msg"] = c.g.Msg(); return c.g.Bytes(32) },
		try: func(c *c19Ctx, prev, b []byte) c19Res {
			alpha := c.aux["msg"]
			pub := ed25519.PublicKey(c.priv[32:])
			good := append(clone(b), prev...)[:32]
			detPi := ecvrf.Prove(c.priv, alpha)
			first, err1 := ecvrf.ProveWithAddedRandomness(bytes.NewReader(good), c.priv, alpha)
			if err1 != nil {
				return c19Res{bad: "ProveWithAddedRandomness failed on a well-formed request"}
			}
			pi, err := ecvrf.ProveWithAddedRandomness(bytes.NewReader(b), c.priv, alpha)
			if len(b) < 32 {
				if err == nil || pi != nil {
					return c19Res{ok: true, bad: fmt.Sprintf("ProveWithAddedRandomness succeeded on an entropy stream of %d bytes", len(b))}
				}
			} else if err != nil {
				return c19Res{bad: "ProveWithAddedRandomness failed on a sufficient entropy stream: " + err.Error()}
			}
			if ok, _ := ecvrf.Verify(pub, detPi, alpha); !ok {
				return c19Res{bad: "after the call a proof that verified before is rejected"}
			}
			if !bytes.Equal(ecvrf.Prove(c.priv, alpha), detPi) {
				return c19Res{bad: "after the call deterministic proving gives another proof than before"}
			}
			retry, err3 := ecvrf.ProveWithAddedRandomness(bytes.NewReader(good), c.priv, alpha)
			if err3 != nil || !bytes.Equal(retry, first) {
				return c19Res{bad: "after the call proving with the same 32 entropy bytes gives another proof than a first attempt"}
			}
			return c19Res{ok: len(b) >= 32}
		}})
	// provers take a private key: the error-returning forms must return an error for a malformed key
	add(c19Target{name: "ecvrf.ProveWithAddedRandomness(private key)", size: 64,
		gen: func(c *c19Ctx) []byte { c.aux["msg"] = c.g.Msg(); return clone(c.g.EdKey()) },
		try: func(c *c19Ctx, prev, b []byte) c19Res {
			pi, err := ecvrf.ProveWithAddedRandomness(det(), ed25519.PrivateKey(b), c.aux["msg"])
			pi2, err2 := ecvrf.ProveWithAddedRandomness_v10(det(), ed25519.PrivateKey(b), c.aux["msg"])
			if (err != nil && pi != nil) || (err2 != nil && pi2 != nil) {
				return c19Res{bad: "proof returned with error"}
			}
			return c19Res{ok: err == nil && err2 == nil}
		}})
	add(c19Target{name: "ecvrf.Prove(private key)", size: 64,
		panicsOnLength: true,
		gen:            func(c *c19Ctx) []byte { c.aux["msg"] = c.g.Msg(); return clone(c.g.EdKey()) },
		try: func(c *c19Ctx, prev, b []byte) c19Res {
			pi := ecvrf.Prove(ed25519.PrivateKey(b), c.aux["msg"])
			return c19Res{ok: len(pi) == ecvrf.ProofSize}
		}})
	return ts
}

// c19DecodeOptions maps a short byte string onto an Options value, the message it goes with, and whether the
// struct is valid by the documented field rules.  Missing bytes read as zero.
func c19DecodeOptions(b, baseMsg []byte) (o *ed25519.Options, msg []byte, valid bool) {
	at := func(i int) byte {
		if i < len(b) {
			return b[i]
		}
		return 0
	}
	o = &ed25519.Options{}
	valid = true
	switch at(0) % 5 {
	case 0:
	case 1:
		o.Hash = crypto.SHA512
	case 2:
		o.Hash = crypto.SHA256
	case 3:
		o.Hash = crypto.SHA3_512
	default:
		o.Hash = crypto.Hash(99)
	}
	if o.Hash != 0 && o.Hash != crypto.SHA512 {
		valid = false
	}
	cl := []int{0, 1, 2, 31, 32, 64, 128, 254, 255, 256, 257, 300}[int(at(1))%12]
	ctx := make([]byte, cl)
	for i := range ctx {
		ctx[i] = byte(i*7) ^ at(1)
	}
	o.Context = string(ctx)
	if cl > ed25519.ContextMaxSize {
		valid = false
	}
	f := at(2)
	switch {
	case f&0x20 != 0:
		o.Verify = nil
	case f&0xc0 == 0x40:
		o.Verify = []*ed25519.VerifyOptions{ed25519.VerifyOptionsDefault, ed25519.VerifyOptionsStdLib, ed25519.VerifyOptionsFIPS_186_5, ed25519.VerifyOptionsZIP_215}[f&3]
	default:
		o.Verify = &ed25519.VerifyOptions{AllowSmallOrderA: f&1 != 0, AllowSmallOrderR: f&2 != 0, AllowNonCanonicalA: f&4 != 0, AllowNonCanonicalR: f&8 != 0, CofactorlessVerify: f&16 != 0}
	}
	if o.Verify != nil && o.Verify.AllowNonCanonicalR && o.Verify.CofactorlessVerify {
		valid = false
	}
	g := at(3)
	o.AddedRandomness = g&1 != 0
	o.SelfVerify = g&2 != 0
	d := sha512.Sum512(baseMsg)
	switch {
	case g&8 != 0:
		msg = d[:63]
	case g&4 != 0:
		msg = d[:]
	default:
		msg = baseMsg
	}
	if o.Hash == crypto.SHA512 && len(msg) != sha512.Size {
		valid = false
	}
	return
}
