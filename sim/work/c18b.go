package work

import (
	"fmt"

	"github.com/oasisprotocol/curve25519-voi/curve"
	"github.com/oasisprotocol/curve25519-voi/primitives/ed25519"
	"github.com/oasisprotocol/curve25519-voi/primitives/ed25519/extra/cache"

	"verifsim/core"
	"verifsim/rt"
)

// C18 phase B: one caching Verifier over one LRU cache shared by several tasks;
// yields land between the Get and the Put of the verifier's upsert.

type vtx struct {
	pk, msg, sig []byte
	opts         *ed25519.Options
	want         bool // plain ed25519.VerifyWithOptions, documented panic = false
	kind         string
}

var theTxs []vtx

// DetReader is a plain deterministic, never-failing reader.
type DetReader struct{ rng core.Rng }

func NewDetReader(seed uint64) *DetReader { return &DetReader{core.NewRng(seed)} }

func (d *DetReader) Read(p []byte) (int, error) {
	for i := range p {
		p[i] = byte(d.rng.Next())
	}
	return len(p), nil
}

func plainVerify(pk, msg, sig []byte, opts *ed25519.Options) bool {
	var ok bool
	pan, _ := Guard(func() { ok = ed25519.VerifyWithOptions(pk, msg, sig, opts) })
	return ok && !pan
}

func txPool() []vtx {
	if theTxs != nil {
		return theTxs
	}
	p := pool()
	add := func(pk, msg, sig []byte, o *ed25519.Options, kind string) {
		theTxs = append(theTxs, vtx{pk, msg, sig, o, plainVerify(pk, msg, sig, o), kind})
	}
	def := &ed25519.Options{}
	for i := 0; i < poolKeys; i++ {
		msg := []byte(fmt.Sprintf("message-%d", i))
		sig := ed25519.Sign(p.priv[i], msg)
		add(p.pub[i], msg, sig, def, "valid")
		bad := append([]byte(nil), sig...)
		bad[5] ^= 0x10
		add(p.pub[i], msg, bad, def, "bad-R")
		add(p.pub[i], []byte("other"), sig, def, "wrong-msg")
		add(p.pub[(i+1)%poolKeys], msg, sig, def, "wrong-key")
		o := &ed25519.Options{Context: "ctx", Verify: ed25519.VerifyOptionsStdLib}
		s2, err := p.priv[i].Sign(nil, msg, &ed25519.Options{Context: "ctx"})
		if err != nil {
			panic(err)
		}
		add(p.pub[i], msg, s2, o, "valid-ctx-stdlib")
	}
	// keys that never expand / are rejected
	sig0 := ed25519.Sign(p.priv[0], []byte("m"))
	notOnCurve := make([]byte, 32)
	notOnCurve[0] = 2 // y=2 is not on the curve
	add(notOnCurve, []byte("m"), sig0, def, "undecodable-key")
	var small curve.CompressedEdwardsY
	small.SetEdwardsPoint(curve.EIGHT_TORSION[1])
	add(small[:], []byte("m"), append(append([]byte(nil), small[:]...), make([]byte, 32)...), def, "small-order-key-default")
	add(small[:], []byte("m"), append(append([]byte(nil), small[:]...), make([]byte, 32)...), &ed25519.Options{Verify: ed25519.VerifyOptionsZIP_215}, "small-order-key-zip215")
	add(p.pub[0][:31], []byte("m"), sig0, def, "short-key")
	return theTxs
}

var (
	cB_ops      = core.RegCounter("c18b.ops")
	cB_inop     = core.RegCounter("c18b.switches_inside_verifier_op")
	cB_verify   = core.RegCounter("c18b.verify_calls")
	cB_batch    = core.RegCounter("c18b.batch_adds")
	cB_addpk    = core.RegCounter("c18b.addpublickey_calls")
	cB_accepts  = core.RegCounter("c18b.accepting_decisions")
	cB_rejects  = core.RegCounter("c18b.rejecting_decisions")
	cB_badkeyop = core.RegCounter("c18b.ops_with_unexpandable_key")
)

type bOp struct {
	kind int // 0 verify, 1 addpublickey, 2 batch
	txs  []int
	seed uint32
}

func init() {
	Register(&Workload{
		Name:     "C18B",
		Property: "C18",
		Phase:    "B: shared caching verifier under interleavings",
		Variants: []string{"instr"},
		Rule: "per run: one cache.Verifier over NewLRUCache(1..3) shared by 2..4 tasks x 1..5 operations (VerifyWithOptions, AddPublicKey, AddWithOptions into a task-private batch + Verify) over a pool of valid/invalid/undecodable/short keys; " +
			"yields are statement-level inside cache.go/lru.go (between upsert's Get and Put); oracle: each decision equals plain ed25519.VerifyWithOptions computed before the run, batch results are the per-entry decisions and their conjunction, " +
			"every key still cached afterwards maps to an expanded key with the same compressed bytes; non-trivial = at least one switch while the leaving task was inside a verifier call",
		Real: []string{"cache.Verifier", "cache.NewLRUCache", "ed25519.VerifyExpandedWithOptions", "ed25519.BatchVerifier", "ed25519.NewExpandedPublicKey"},
		Stub: []string{"goroutine scheduler (rt)", "sync.Mutex blocking (simsync)", "batch entropy: deterministic reader"},
		Run:  runC18B,
	})
	// The same scenario decides the caching-verifier clause of C09 ("verification through the
	// caching verifier under any history of cache hits, misses and evictions returns the same
	// decision as plain verification"): histories produced by several callers at once are
	// histories too.
	Register(&Workload{
		Name:     "C09C",
		Property: "C09",
		Phase:    "one caching verifier shared by concurrent validators",
		Variants: []string{"instr"},
		Rule: "the scenario of C18 phase B: one cache.Verifier over NewLRUCache(1..3) shared by 2..4 tasks x 1..5 operations (VerifyWithOptions, AddPublicKey, AddWithOptions + Verify) over valid / invalid / undecodable / short keys, preempted at statement-level yields inside cache.go and lru.go; oracle: every cached decision (single and batch) equals plain ed25519.VerifyWithOptions; " +
			"non-trivial = at least one switch while the leaving task was inside a verifier call; distinct = distinct event-log digests",
		Real: []string{"cache.Verifier", "cache.NewLRUCache", "ed25519.VerifyExpandedWithOptions", "ed25519.BatchVerifier"},
		Stub: []string{"goroutine scheduler (rt)", "sync.Mutex blocking (simsync)", "batch entropy: deterministic reader"},
		Run:  runC18B,
	})
}

func runC18B(e *Env, r *core.Run) {
	p := pool()
	txs := txPool()
	t := r.T
	capa := 1 + t.W(3)
	ntasks := 2 + t.W(3)
	scripts := make([][]bOp, ntasks)
	total := 0
	hot := t.W(len(txs)) // a hot transaction, to create same-key races
	pickTx := func() int {
		if t.W(3) == 0 {
			return hot
		}
		return t.W(len(txs))
	}
	entries := 0
	for i := range scripts {
		n := 1 + t.W(5)
		for j := 0; j < n; j++ {
			op := bOp{kind: t.W(4)}
			if op.kind == 3 {
				op.kind = 0
			}
			switch op.kind {
			case 0, 1:
				op.txs = []int{pickTx()}
			case 2:
				for k := 1 + t.W(3); k > 0; k-- {
					op.txs = append(op.txs, pickTx())
				}
				if e.Deep() && t.W(6) == 0 {
					// a batch past the Pippenger threshold, preempted inside the multiscalar multiplication
					for len(op.txs) < 95+t.W(4) {
						op.txs = append(op.txs, pickTx())
					}
				}
				entries += len(op.txs)
				op.seed = uint32(t.W(1 << 20))
			}
			scripts[i] = append(scripts[i], op)
			total++
		}
	}
	r.Ev("cfg cap=%d tasks=%d ops=%d hot=%d", capa, ntasks, total, hot)
	c := cache.NewLRUCache(capa)
	v := cache.NewVerifier(c)
	probe := newLRUProbe(c)
	sim := e.Sim
	cfg := rt.Config{Draw: func(n int) int { return t.Draw(core.SS, n) }, EstYields: total * 20, MaxYields: uint64(total*20*50 + 2000)}
	if e.Deep() {
		// yields inside the group arithmetic: some thousands per operation (measured), a Pippenger-sized batch far more
		cfg.EstYields, cfg.MaxYields, cfg.Dense = total*3000+entries*2500, uint64(total)*5000000+uint64(entries)*2000000, true
	}
	sim.Begin(cfg)
	logs := make([]*core.Log, ntasks)
	for i := range logs {
		logs[i] = r.NewLog(i)
	}
	sim.OnPanic = func(task int, val interface{}, stack []byte) {
		msg := fmt.Sprint(val)
		logs[task].Fail("panic", normPanic(msg), "task %d panicked: %s", task, msg)
	}
	for i := range scripts {
		i := i
		sim.Spawn(func(task int) {
			l := logs[i]
			for _, op := range scripts[i] {
				rt.Yield(3901)
				r.Count(cB_ops)
				switch op.kind {
				case 0:
					x := txs[op.txs[0]]
					l.Ev("invoke Verify(tx%d %s)", op.txs[0], x.kind)
					rt.EnterOp()
					got := v.VerifyWithOptions(x.pk, x.msg, x.sig, x.opts)
					rt.ExitOp()
					l.Ev("return Verify(tx%d) -> %v", op.txs[0], got)
					r.Count(cB_verify)
					if got {
						r.Count(cB_accepts)
					} else {
						r.Count(cB_rejects)
					}
					if got != x.want {
						l.Fail("cached-decision", "verify-"+x.kind, "cache.Verifier.VerifyWithOptions(tx%d %s) = %v, plain verification says %v", op.txs[0], x.kind, got, x.want)
					}
				case 1:
					x := txs[op.txs[0]]
					l.Ev("invoke AddPublicKey(tx%d %s)", op.txs[0], x.kind)
					rt.EnterOp()
					v.AddPublicKey(x.pk)
					rt.ExitOp()
					l.Ev("return AddPublicKey")
					r.Count(cB_addpk)
				case 2:
					bv := ed25519.NewBatchVerifier()
					all := true
					for _, ti := range op.txs {
						x := txs[ti]
						l.Ev("invoke Add(tx%d %s)", ti, x.kind)
						rt.EnterOp()
						v.AddWithOptions(bv, x.pk, x.msg, x.sig, x.opts)
						rt.ExitOp()
						l.Ev("return Add")
						r.Count(cB_batch)
						all = all && x.want
					}
					ok, res := bv.Verify(NewDetReader(uint64(op.seed)))
					l.Ev("batch Verify -> %v %v", ok, res)
					if ok != all {
						l.Fail("cached-decision", "batch-conjunction", "batch through the caching verifier returned %v, conjunction of plain decisions is %v", ok, all)
					}
					for k, ti := range op.txs {
						if k < len(res) && res[k] != txs[ti].want {
							l.Fail("cached-decision", "batch-entry-"+txs[ti].kind, "batch entry %d (tx%d %s) = %v, plain verification says %v", k, ti, txs[ti].kind, res[k], txs[ti].want)
						}
					}
					if len(res) != len(op.txs) {
						l.Fail("cached-decision", "batch-length", "batch returned %d results for %d entries", len(res), len(op.txs))
					}
				}
				for _, ti := range op.txs {
					if k := txs[ti].kind; k == "undecodable-key" || k == "short-key" {
						r.Count(cB_badkeyop)
					}
				}
			}
		})
	}
	sim.Run()
	r.AddSteps(sim.Yields)
	r.CountN(cB_inop, int64(sim.SwitchInOp))
	r.Nontrivial = sim.SwitchInOp > 0
	r.Ev("sched policy=%d yields=%d switches=%d inop=%d hash=%x", sim.Policy(), sim.Yields, sim.Switches, sim.SwitchInOp, sim.SchedHash)
	if sim.AbortClass != "" {
		r.Fail(sim.AbortClass, sim.AbortClass, "run aborted: %s after %d yields", sim.AbortClass, sim.Yields)
		return
	}
	// cache contents at quiescence: whatever is cached under a key is that key's expansion
	pk, msg, ab := SerialInSim(e, func() {
		n := 0
		for k := 0; k < poolKeys; k++ {
			got := c.Get(&p.comp[k])
			if got == nil {
				continue
			}
			n++
			if got.CompressedY() != p.comp[k] {
				r.Fail("foreign-value", "cached-entry-of-other-key", "after the run the cache returns for key k%d an expanded key whose compressed form differs", k)
			}
		}
		if n > capa {
			r.Fail("structural", "over-capacity", "%d keys readable from a cache of capacity %d", n, capa)
		}
		r.Ev("final cached=%d", n)
	})
	if ab != "" {
		r.Fail(ab, ab+"-at-quiescence", "after all tasks finished a sequential Get could not proceed: %s", ab)
		return
	}
	if pk {
		r.Fail("panic", normPanic(msg), "final read panicked: %s", msg)
		return
	}
	if probe != nil {
		if key, detail := probe.check(capa); key != "" && key != "layout" {
			r.Fail("structural", key, "%s", detail)
		}
	}
}
