// Package work holds one workload per claimed property (and phase).  A workload
// is a pure function of the run's tape: it generates the scenario, drives the
// real library through its public API under the simulator's scheduler and
// simulated I/O, and evaluates the property's oracle.
package work

import (
	"fmt"
	"sort"
	"strings"
	"time"

	"verifsim/core"
	"verifsim/rt"
)

// Env is per-worker state reused across runs.
type Env struct {
	Sim     *rt.Sim
	Tier    string // quick | thorough
	Race    bool   // built with -race
	Instr   bool   // built with the statement-yield overlay
	Wide    bool   // ... which also covers every file under primitives/
	Variant string
	// RaceCheck, if set, is called after the tasks of a run were joined and
	// returns the text of any new race report.
	RaceCheck func() string
}

func (e *Env) Thorough() bool { return e.Tier == "thorough" }

type Workload struct {
	Name     string // e.g. "C18A"
	Property string
	Phase    string
	// Variants lists the build variants this workload must be run on.
	Variants []string
	// Rule describes generation and what makes a run non-trivial (evidence).
	Rule string
	// Real / Stub components (evidence).
	Real, Stub []string
	Run        func(e *Env, r *core.Run)
	// Init is called once per worker before the first run (KATs of the oracle;
	// a failure is an infrastructure error, exit 2).
	Init func(e *Env) error
	// Sample renders a short description of the run for the evidence file.
	// Default: the trimmed trace.
}

var registry = map[string]*Workload{}

func Register(w *Workload) {
	if _, dup := registry[w.Name]; dup {
		panic("duplicate workload " + w.Name)
	}
	registry[w.Name] = w
}

func Get(name string) *Workload { return registry[name] }

func Names() []string {
	var n []string
	for k := range registry {
		n = append(n, k)
	}
	sort.Strings(n)
	return n
}

// Guard runs f and converts a panic into (panicked=true, message).
func Guard(f func()) (panicked bool, msg string) {
	defer func() {
		if e := recover(); e != nil {
			panicked = true
			msg = fmt.Sprint(e)
		}
	}()
	f()
	return
}

// GuardTimeout runs f on its own goroutine and reports whether it returned within d
// of real time.  Used only where the property under check says "terminates": the
// limit is many orders of magnitude above what the call takes (micro- to
// milliseconds), so machine load cannot trip it; a call that does not return keeps
// its goroutine spinning, so the worker stops starting new runs afterwards (Hung).
func GuardTimeout(d time.Duration, f func()) (returned, panicked bool, msg string) {
	done := make(chan struct{})
	go func() {
		defer close(done)
		panicked, msg = Guard(f)
	}()
	select {
	case <-done:
		return true, panicked, msg
	case <-time.After(d):
		Hung = true
		return false, false, ""
	}
}

// Hung is set once a guarded call did not return; the worker finishes the current
// run, reports, and exits.
var Hung bool

func b2i(b bool) int {
	if b {
		return 1
	}
	return 0
}

// SerialInSim runs f as the only task of a fresh scheduler round, so that
// cooperative locks that can never be taken surface as an abort class
// ("deadlock") instead of blocking the worker.
func SerialInSim(e *Env, f func()) (panicked bool, msg string, abort string) {
	sim := e.Sim
	sim.Begin(rt.Config{Draw: func(n int) int { return 0 }, EstYields: 16, MaxYields: 1 << 20})
	sim.OnPanic = func(task int, val interface{}, stack []byte) {
		panicked = true
		msg = fmt.Sprint(val)
	}
	sim.Spawn(func(int) { f() })
	sim.Run()
	return panicked, msg, sim.AbortClass
}

// Deep reports whether this build also has statement yields inside curve/*.go (variants instrc*): an operation
// then yields tens of thousands of times, and workloads scale their yield estimates and use rt.Config.Dense.
func (e *Env) Deep() bool { return strings.HasPrefix(e.Variant, "instrc") }

// SimConfig builds the scheduler configuration of a concurrent phase: est and max are the workload's figures for
// the protocol-level overlay; on a deep build both are scaled by the cost of the group arithmetic underneath.
func (e *Env) SimConfig(draw func(n int) int, est int, max uint64) rt.Config {
	if e.Deep() {
		return rt.Config{Draw: draw, EstYields: est * 80, MaxYields: max * 400, Dense: true}
	}
	return rt.Config{Draw: draw, EstYields: est, MaxYields: max}
}
