package work

import (
	"bytes"
	"crypto"
	stded "crypto/ed25519"
	"crypto/sha512"
	"fmt"

	"github.com/oasisprotocol/curve25519-voi/primitives/ed25519"

	"verifsim/core"
	"verifsim/rt"
)

// C02 phase C: several signers and verifiers at once.  The statement "for every
// seed, message and context the signature is the RFC 8032 one, and every produced
// signature verifies" has to hold for each caller whatever other callers do; on a
// build with statement yields inside primitives/ed25519 tasks are preempted
// between the statements of Sign and Verify, so state shared between calls
// (a scratch buffer for the dom2 prefix, a memoised context) yields a signature
// that differs from crypto/ed25519 or a valid signature that is rejected.

var (
	c02cOps    = core.RegCounter("c02c.ops")
	c02cSigns  = core.RegCounter("c02c.deterministic_signatures_compared_with_stdlib")
	c02cHedged = core.RegCounter("c02c.hedged_signatures_verified")
	c02cVerify = core.RegCounter("c02c.stdlib_signatures_verified")
	c02cBatch  = core.RegCounter("c02c.batches")
	c02cInOp   = core.RegCounter("c02c.switches_inside_sign_or_verify")
)

type c02cReq struct {
	kind int // 0 sign, 1 hedged sign + self check, 2 verify a stdlib signature, 3 batch of own + stdlib signatures
	priv ed25519.PrivateKey
	v    c02Variant
	msg  []byte
	ref  []byte // crypto/ed25519 signature
	seed uint32
}

func init() {
	Register(&Workload{
		Name:     "C02C",
		Property: "C02",
		Phase:    "concurrent signers and verifiers with different contexts, preempted inside Sign / Verify",
		Variants: []string{"instrw"},
		Rule: "per run: 2..4 tasks x 1..3 requests (deterministic sign, hedged sign, verify, batch) over pure / ctx / ph variants with task-specific contexts; every context switch is a tape draw at a statement-level yield inside primitives/ed25519; oracle: each deterministic signature byte-equals Go crypto/ed25519 (computed before the run), every produced signature and every crypto/ed25519 signature verifies singly and in a batch; " +
			"non-trivial = at least one switch while the leaving task was inside a request; distinct = distinct event-log digests",
		Real: []string{"ed25519.PrivateKey.Sign, VerifyWithOptions, BatchVerifier (statement yields spliced in)", "reference: Go crypto/ed25519"},
		Stub: []string{"goroutine scheduler (rt)", "entropy: deterministic readers"},
		Run:  runC02C,
	})
}

func runC02C(e *Env, r *core.Run) {
	t := r.T
	g := &Gen{T: t}
	ntasks := 2 + t.W(3)
	scripts := make([][]c02cReq, ntasks)
	total := 0
	for i := range scripts {
		n := 1 + t.W(3)
		seed := g.Bytes(32)
		spriv := stded.NewKeyFromSeed(seed)
		for j := 0; j < n; j++ {
			q := c02cReq{kind: t.W(4), priv: ed25519.PrivateKey(clone(spriv)), seed: uint32(t.W(1 << 20))}
			q.v = c02DrawVariant(r, g)
			if t.W(3) != 0 && !q.v.ph && q.v.ctx == "" {
				q.v.ctx = fmt.Sprintf("task-%d-%d", i, j) // mostly ctx/ph users: that is where shared prefixes live
			}
			q.msg = g.Msg()
			if q.v.ph {
				d := sha512.Sum512(q.msg)
				q.msg = d[:]
			}
			ref, err := spriv.Sign(nil, q.msg, &stded.Options{Hash: q.v.hash(), Context: q.v.ctx})
			if err != nil {
				panic("harness: stdlib refused a valid request")
			}
			q.ref = ref
			scripts[i] = append(scripts[i], q)
			total++
		}
	}
	r.Ev("cfg tasks=%d requests=%d", ntasks, total)
	sim := e.Sim
	sim.Begin(e.SimConfig(func(n int) int { return t.Draw(core.SS, n) }, total*150, uint64(total*400000+10000)))
	logs := make([]*core.Log, ntasks)
	for i := range logs {
		logs[i] = r.NewLog(i)
	}
	sim.OnPanic = func(task int, val interface{}, stack []byte) {
		msg := fmt.Sprint(val)
		logs[task].Fail("panic", normPanic(msg), "task %d panicked: %s", task, msg)
	}
	for i := range scripts {
		i := i
		sim.Spawn(func(task int) {
			l := logs[i]
			for j, q := range scripts[i] {
				rt.Yield(3904)
				pub := ed25519.PublicKey(q.priv[32:])
				o := &ed25519.Options{Hash: q.v.hash(), Context: q.v.ctx}
				r.Count(c02cOps)
				rt.EnterOp()
				switch q.kind {
				case 0:
					sig, err := q.priv.Sign(nil, q.msg, o)
					rt.ExitOp()
					l.Ev("req %d sign ctx=%d ph=%v -> %s", j, len(q.v.ctx), q.v.ph, core.H(sig))
					r.Count(c02cSigns)
					if err != nil {
						l.Fail("completeness", "valid-request-refused-under-concurrency", "signing a valid request failed while other signers were active: %v", err)
					} else if !bytes.Equal(sig, q.ref) {
						l.Fail("exactness", "signature-differs-from-stdlib-under-concurrency", "with other signers active, the signature (ctx %d bytes, ph=%v) = %x, crypto/ed25519 gives %x", len(q.v.ctx), q.v.ph, sig, q.ref)
					}
				case 1:
					ho := &ed25519.Options{Hash: q.v.hash(), Context: q.v.ctx, AddedRandomness: true}
					sig, err := q.priv.Sign(NewDetReader(uint64(q.seed)), q.msg, ho)
					ok := err == nil && ed25519.VerifyWithOptions(pub, q.msg, sig, o)
					rt.ExitOp()
					l.Ev("req %d hedged sign+verify ctx=%d ph=%v -> %v", j, len(q.v.ctx), q.v.ph, ok)
					r.Count(c02cHedged)
					if !ok {
						l.Fail("completeness", "produced-signature-rejected-under-concurrency", "a hedged signature produced while other signers were active does not verify (err=%v)", err)
					}
				case 2:
					ok := ed25519.VerifyWithOptions(pub, q.msg, q.ref, &ed25519.Options{Hash: q.v.hash(), Context: q.v.ctx, Verify: c02presets[j%4]})
					rt.ExitOp()
					l.Ev("req %d verify ctx=%d ph=%v -> %v", j, len(q.v.ctx), q.v.ph, ok)
					r.Count(c02cVerify)
					if !ok {
						l.Fail("completeness", "valid-signature-rejected-under-concurrency", "a crypto/ed25519 signature (ctx %d bytes, ph=%v) was rejected while other callers were active", len(q.v.ctx), q.v.ph)
					}
				default:
					bv := ed25519.NewBatchVerifier()
					sig, err := q.priv.Sign(nil, q.msg, o)
					bv.AddWithOptions(pub, q.msg, q.ref, o)
					if err == nil {
						bv.AddWithOptions(pub, q.msg, sig, o)
					}
					ok, res := bv.Verify(NewDetReader(uint64(q.seed)))
					rt.ExitOp()
					l.Ev("req %d batch ctx=%d ph=%v -> %v %v", j, len(q.v.ctx), q.v.ph, ok, res)
					r.Count(c02cBatch)
					if err != nil || !ok {
						l.Fail("completeness", "batch-rejected-under-concurrency", "a batch of a crypto/ed25519 signature and a fresh signature was rejected while other callers were active (err=%v results=%v)", err, res)
					}
				}
			}
		})
	}
	sim.Run()
	r.AddSteps(sim.Yields)
	r.CountN(c02cInOp, int64(sim.SwitchInOp))
	r.Nontrivial = sim.SwitchInOp >= 1
	r.Ev("sched policy=%d yields=%d switches=%d inop=%d hash=%x", sim.Policy(), sim.Yields, sim.Switches, sim.SwitchInOp, sim.SchedHash)
	if sim.AbortClass != "" {
		r.Fail(sim.AbortClass, sim.AbortClass, "run aborted: %s", sim.AbortClass)
	}
}

var _ = crypto.SHA512
