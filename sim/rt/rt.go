// Package rt is the deterministic task scheduler.
//
// "Nodes" are caller goroutines (tasks).  Exactly one task holds the run token;
// all others are parked in a blocking read on their own pipe.  Control changes
// hands only inside Yield / Block / task exit, and who runs next is a draw on the
// schedule stream of the run's tape, so one tape is one exact interleaving.
//
// The token is handed over with raw SYS_READ/SYS_WRITE issued through
// syscall.Syscall from //go:norace functions.  The race detector therefore sees
// no happens-before edge between tasks except those created by the code under
// test itself (its mutexes, atomics, channels), while the execution is strictly
// serial.  A data race in the library is then reported whenever the two
// conflicting accesses both occur in a run, however narrow the real window.
//
// This package must stay a leaf (imports only std): instrumented copies of
// library files import it.
package rt

import (
	"runtime"
	"runtime/debug"
	"sync"
	"syscall"
	"unsafe"
)

const (
	stRunnable = iota
	stBlocked
	stDone
)

const (
	PolUniform = iota // draw among all runnable tasks at every yield
	PolSticky         // switch with probability 1/8
	PolPCT            // run to completion except at d pre-drawn preemption points
	NPolicies
)

const MaxSites = 4096

type task struct {
	id     int
	r, w   int
	state  int
	waitOn unsafe.Pointer
}

// Sim is reusable across runs (pipes are kept).
type Sim struct {
	tasks  []*task
	n      int
	cur    int
	mr, mw int
	wg     sync.WaitGroup

	draw      func(n int) int
	policy    int
	preempt   [32]uint64
	npreempt  int
	maxYields uint64

	Yields      uint64
	Switches    uint64
	Preemptions uint64 // switches away from a task that could have continued
	SchedHash   uint64
	AbortClass  string // "", "deadlock", "livelock"
	aborted     bool
	SiteHits    [MaxSites]uint32
	lastSite    int

	// AtYield, if set, is called by the running task at every yield before the
	// scheduling decision (invariant probes).  Not used in race builds.
	AtYield func(site int)
	// OnPanic is called on the panicking task's goroutine.
	OnPanic func(task int, val interface{}, stack []byte)
	// InOp is set by workloads while a task is inside a library operation; a
	// switch with InOp>0 on the leaving task is a preemption inside an operation.
	inOp       [64]int32
	SwitchInOp uint64
}

var active *Sim

//go:norace
func Active() bool { return active != nil }

//go:norace
func rawWrite(fd int) {
	var b [1]byte
	for {
		_, _, e := syscall.Syscall(syscall.SYS_WRITE, uintptr(fd), uintptr(unsafe.Pointer(&b[0])), 1)
		if e == syscall.EINTR || e == syscall.EAGAIN {
			continue
		}
		if e != 0 {
			panic("rt: pipe write: " + e.Error())
		}
		return
	}
}

//go:norace
func rawRead(fd int) {
	var b [1]byte
	for {
		n, _, e := syscall.Syscall(syscall.SYS_READ, uintptr(fd), uintptr(unsafe.Pointer(&b[0])), 1)
		if e == syscall.EINTR || e == syscall.EAGAIN {
			continue
		}
		if e != 0 {
			panic("rt: pipe read: " + e.Error())
		}
		if n == 1 {
			return
		}
	}
}

func mkpipe() (int, int) {
	var p [2]int
	if err := syscall.Pipe(p[:]); err != nil {
		panic(err)
	}
	return p[0], p[1]
}

func New() *Sim {
	s := &Sim{}
	s.mr, s.mw = mkpipe()
	return s
}

// Config of one run.
type Config struct {
	Draw      func(n int) int // schedule-stream draw (must be //go:norace all the way down)
	EstYields int             // rough number of yields of the run when executed serially
	MaxYields uint64          // livelock bound
	// Dense: the instrumented code yields tens of thousands of times per operation (group arithmetic): only the
	// preemption-point policy is used (a handful of tape-drawn yield indices), never a draw per yield.
	Dense bool
}

// Begin resets the simulator for a new run and draws the scheduling policy.
func (s *Sim) Begin(c Config) {
	s.n = 0
	s.cur = -1
	s.draw = c.Draw
	s.maxYields = c.MaxYields
	s.Yields, s.Switches, s.Preemptions, s.SchedHash, s.SwitchInOp = 0, 0, 0, 0, 0
	s.AbortClass, s.aborted = "", false
	s.AtYield, s.OnPanic = nil, nil
	s.lastSite = 0
	for i := range s.SiteHits {
		s.SiteHits[i] = 0
	}
	for i := range s.inOp {
		s.inOp[i] = 0
	}
	s.policy = c.Draw(NPolicies)
	if c.Dense {
		s.policy = PolPCT
	}
	s.npreempt = 0
	if s.policy == PolPCT {
		est := c.EstYields
		if est < 4 {
			est = 4
		}
		s.npreempt = 1 + c.Draw(4)
		if c.Dense {
			// windows of a few statements among tens of thousands: many more preemption points per run
			s.npreempt = 4 + c.Draw(25)
		}
		for i := 0; i < s.npreempt; i++ {
			s.preempt[i] = uint64(c.Draw(2 * est))
		}
	}
}

func (s *Sim) Policy() int { return s.policy }

// Spawn registers a task; it starts running when the scheduler first picks it.
func (s *Sim) Spawn(f func(task int)) int {
	var t *task
	if s.n < len(s.tasks) {
		t = s.tasks[s.n]
	} else {
		t = &task{id: s.n}
		t.r, t.w = mkpipe()
		s.tasks = append(s.tasks, t)
	}
	t.state = stRunnable
	t.waitOn = nil
	s.n++
	s.wg.Add(1)
	go func() {
		defer s.wg.Done()
		rawRead(t.r)
		defer s.finish(t)
		defer func() {
			if e := recover(); e != nil {
				if s.OnPanic != nil {
					s.OnPanic(t.id, e, debug.Stack())
				}
			}
		}()
		if s.isAborted() {
			return
		}
		f(t.id)
	}()
	return t.id
}

//go:norace
func (s *Sim) isAborted() bool { return s.aborted }

// Run executes the spawned tasks to completion (or abort) and joins them.
func (s *Sim) Run() {
	if s.n == 0 {
		return
	}
	active = s
	s.start()
	rawRead(s.mr)
	active = nil
	s.wg.Wait()
}

//go:norace
func (s *Sim) start() {
	nx := s.pick(-1)
	s.cur = nx
	rawWrite(s.tasks[nx].w)
}

// pick chooses the next task.  me is the current task if it may continue, -1
// otherwise.  Candidates are ordered: me first, then the others by id, so that a
// draw of 0 means "no switch" — the shrinker's simplest choice.
//
//go:norace
func (s *Sim) pick(me int) int {
	var cand [64]int
	n := 0
	if me >= 0 {
		cand[0] = me
		n = 1
	}
	for i := 0; i < s.n; i++ {
		if i != me && s.tasks[i].state == stRunnable {
			cand[n] = i
			n++
		}
	}
	if n == 0 {
		return -1
	}
	if n == 1 {
		return cand[0]
	}
	var k int
	if me < 0 {
		k = s.draw(n)
	} else {
		switch s.policy {
		case PolUniform:
			k = s.draw(n)
		case PolSticky:
			if s.draw(8) == 7 {
				k = 1 + s.draw(n-1)
			}
		default:
			hit := false
			for i := 0; i < s.npreempt; i++ {
				if s.preempt[i] == s.Yields {
					hit = true
				}
			}
			if hit {
				k = 1 + s.draw(n-1)
			}
		}
	}
	return cand[k]
}

//go:norace
func (s *Sim) note(site, next int) {
	s.SchedHash = (s.SchedHash ^ uint64(site*64+next+1)) * 0x100000001b3
}

//go:norace
func (s *Sim) switchTo(me, nx int) {
	s.Switches++
	s.cur = nx
	rawWrite(s.tasks[nx].w)
	rawRead(s.tasks[me].r)
}

// Yield is a scheduling point.  Outside a simulation it returns at once.
//
//go:norace
func Yield(site int) {
	s := active
	if s == nil || s.aborted {
		return
	}
	s.yield(site)
}

//go:norace
func (s *Sim) yield(site int) {
	me := s.cur
	s.Yields++
	if site >= 0 && site < MaxSites {
		s.SiteHits[site]++
	}
	s.lastSite = site
	if s.AtYield != nil {
		s.AtYield(site)
	}
	if s.maxYields > 0 && s.Yields > s.maxYields {
		s.abort("livelock")
		runtime.Goexit()
	}
	nx := s.pick(me)
	s.note(site, nx)
	if nx == me {
		return
	}
	s.Preemptions++
	if s.inOp[me&63] > 0 {
		s.SwitchInOp++
	}
	s.switchTo(me, nx)
	if s.aborted {
		runtime.Goexit()
	}
}

// Block parks the current task until Wake(obj) is called by another task.
//
//go:norace
func Block(obj unsafe.Pointer) {
	s := active
	if s == nil || s.aborted {
		// Outside a simulation nothing can be done deterministically; spin politely.
		runtime.Gosched()
		return
	}
	me := s.cur
	t := s.tasks[me]
	t.state = stBlocked
	t.waitOn = obj
	nx := s.pick(-1)
	if nx < 0 {
		t.state = stRunnable
		s.abort("deadlock")
		runtime.Goexit()
	}
	s.note(-2, nx)
	s.switchTo(me, nx)
	if s.aborted {
		runtime.Goexit()
	}
}

// Wake makes every task blocked on obj runnable again.
//
//go:norace
func Wake(obj unsafe.Pointer) {
	s := active
	if s == nil {
		return
	}
	for i := 0; i < s.n; i++ {
		t := s.tasks[i]
		if t.state == stBlocked && t.waitOn == obj {
			t.state = stRunnable
			t.waitOn = nil
		}
	}
}

//go:norace
func (s *Sim) abort(class string) {
	if !s.aborted {
		s.aborted = true
		s.AbortClass = class
	}
}

//go:norace
func (s *Sim) finish(t *task) {
	t.state = stDone
	if !s.aborted {
		nx := s.pick(-1)
		if nx >= 0 {
			s.note(-1, nx)
			s.Switches++
			s.cur = nx
			rawWrite(s.tasks[nx].w)
			return
		}
		// nobody runnable: either all done, or the rest is blocked for ever
		for i := 0; i < s.n; i++ {
			if s.tasks[i].state == stBlocked {
				s.abort("deadlock")
				break
			}
		}
	}
	// abort path / all done: release the remaining parked tasks one at a time
	for i := 0; i < s.n; i++ {
		if s.tasks[i].state != stDone {
			s.cur = i
			rawWrite(s.tasks[i].w)
			return
		}
	}
	rawWrite(s.mw)
}

// EnterOp / ExitOp bracket a library operation of the current task (used only to
// classify switches as "inside an operation").
//
//go:norace
func EnterOp() {
	if s := active; s != nil && s.cur >= 0 {
		s.inOp[s.cur&63]++
	}
}

//go:norace
func ExitOp() {
	if s := active; s != nil && s.cur >= 0 {
		s.inOp[s.cur&63]--
	}
}

// Cur returns the id of the running task (-1 outside a simulation).
//
//go:norace
func Cur() int {
	if s := active; s != nil {
		return s.cur
	}
	return -1
}

// DistinctSites returns how many instrumented sites were reached in this run.
func (s *Sim) DistinctSites() int {
	n := 0
	for _, h := range s.SiteHits {
		if h > 0 {
			n++
		}
	}
	return n
}
