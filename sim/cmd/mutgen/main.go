// mutgen enumerates first-order syntactic mutants of one Go source file.
//
//	mutgen -file F -list            one line per mutant: index, line, kind, description
//	mutgen -file F -n K -out PATH   writes the K-th mutant of F to PATH
//
// It is the generator of the systematic sensitivity sweep (tools/mutsweep.py):
// every mutant that still compiles and passes the repository's own tests is run
// against the checks of the properties its file is anchored to.  Mutants are
// produced by text splicing at AST / token offsets, so line numbers stay put.
package main

import (
	"flag"
	"fmt"
	"go/ast"
	"go/parser"
	"go/scanner"
	"go/token"
	"os"
	"sort"
	"strconv"
)

type mut struct {
	off, end int
	repl     string
	kind     string
	line     int
}

func main() {
	file := flag.String("file", "", "source file")
	list := flag.Bool("list", false, "list mutants")
	n := flag.Int("n", -1, "mutant index")
	out := flag.String("out", "", "output path")
	flag.Parse()
	src, err := os.ReadFile(*file)
	if err != nil {
		fmt.Fprintln(os.Stderr, err)
		os.Exit(2)
	}
	muts := enumerate(*file, src)
	if *list {
		for i, m := range muts {
			fmt.Printf("%d\t%d\t%s\t%q -> %q\n", i, m.line, m.kind, string(src[m.off:m.end]), m.repl)
		}
		return
	}
	if *n < 0 || *n >= len(muts) {
		fmt.Fprintln(os.Stderr, "no such mutant")
		os.Exit(2)
	}
	m := muts[*n]
	res := append([]byte{}, src[:m.off]...)
	res = append(res, m.repl...)
	res = append(res, src[m.end:]...)
	if err := os.WriteFile(*out, res, 0o644); err != nil {
		fmt.Fprintln(os.Stderr, err)
		os.Exit(2)
	}
	fmt.Printf("%d\t%d\t%s\t%q -> %q\n", *n, m.line, m.kind, string(src[m.off:m.end]), m.repl)
}

var swaps = map[token.Token][]string{
	token.LSS: {"<="}, token.LEQ: {"<"}, token.GTR: {">="}, token.GEQ: {">"},
	token.EQL: {"!="}, token.NEQ: {"=="},
	token.ADD: {"-"}, token.SUB: {"+"},
	token.LAND: {"||"}, token.LOR: {"&&"},
	token.ADD_ASSIGN: {"-="}, token.SUB_ASSIGN: {"+="},
	token.AND: {"|"}, token.OR: {"&"}, token.XOR: {"&"},
	token.SHL: {">>"}, token.SHR: {"<<"},
}

func enumerate(name string, src []byte) []mut {
	fset := token.NewFileSet()
	f, err := parser.ParseFile(fset, name, src, parser.ParseComments)
	if err != nil {
		fmt.Fprintln(os.Stderr, err)
		os.Exit(2)
	}
	tf := fset.File(f.Pos())
	// function body spans: only mutate inside function bodies (not const tables / imports)
	type span struct{ a, b int }
	var bodies []span
	for _, d := range f.Decls {
		if fd, ok := d.(*ast.FuncDecl); ok && fd.Body != nil {
			bodies = append(bodies, span{tf.Offset(fd.Body.Pos()), tf.Offset(fd.Body.End())})
		}
	}
	inBody := func(o int) bool {
		for _, s := range bodies {
			if o >= s.a && o < s.b {
				return true
			}
		}
		return false
	}
	var muts []mut
	// token-level
	var sc scanner.Scanner
	fs2 := token.NewFileSet()
	sf := fs2.AddFile(name, -1, len(src))
	sc.Init(sf, src, nil, 0)
	for {
		pos, tok, lit := sc.Scan()
		if tok == token.EOF {
			break
		}
		o := sf.Offset(pos)
		if !inBody(o) {
			continue
		}
		line := sf.Line(pos)
		if reps, ok := swaps[tok]; ok {
			for _, r := range reps {
				muts = append(muts, mut{o, o + len(tok.String()), r, "op", line})
			}
		}
		switch tok {
		case token.INT:
			if v, err := strconv.ParseInt(lit, 0, 64); err == nil {
				muts = append(muts, mut{o, o + len(lit), strconv.FormatInt(v+1, 10), "const+1", line})
				if v > 0 {
					muts = append(muts, mut{o, o + len(lit), strconv.FormatInt(v-1, 10), "const-1", line})
				}
			}
		case token.IDENT:
			if lit == "true" {
				muts = append(muts, mut{o, o + 4, "false", "bool", line})
			} else if lit == "false" {
				muts = append(muts, mut{o, o + 5, "true", "bool", line})
			}
		case token.NOT:
			muts = append(muts, mut{o, o + 1, " ", "not", line})
		}
	}
	// AST-level: negate conditions, delete statements
	ast.Inspect(f, func(nd ast.Node) bool {
		switch s := nd.(type) {
		case *ast.IfStmt:
			a, b := tf.Offset(s.Cond.Pos()), tf.Offset(s.Cond.End())
			muts = append(muts, mut{a, b, "!(" + string(src[a:b]) + ")", "negate-if", tf.Line(s.Cond.Pos())})
		case *ast.ForStmt:
			if s.Cond != nil {
				a, b := tf.Offset(s.Cond.Pos()), tf.Offset(s.Cond.End())
				_ = a
				_ = b
			}
		case *ast.BlockStmt:
			for _, st := range s.List {
				del := false
				switch x := st.(type) {
				case *ast.ExprStmt:
					del = true
				case *ast.IncDecStmt:
					del = true
				case *ast.AssignStmt:
					del = x.Tok != token.DEFINE
				case *ast.DeferStmt:
					del = true
				case *ast.IfStmt:
					del = x.Else == nil && x.Init == nil
				}
				if del {
					a, b := tf.Offset(st.Pos()), tf.Offset(st.End())
					blank := make([]byte, 0, b-a)
					for _, c := range src[a:b] {
						if c == '\n' {
							blank = append(blank, '\n')
						} else {
							blank = append(blank, ' ')
						}
					}
					muts = append(muts, mut{a, b, string(blank), "delete-stmt", tf.Line(st.Pos())})
				}
			}
		}
		return true
	})
	sort.SliceStable(muts, func(i, j int) bool {
		if muts[i].off != muts[j].off {
			return muts[i].off < muts[j].off
		}
		return muts[i].kind < muts[j].kind
	})
	return muts
}
