package main

import (
	"bytes"
	"encoding/json"
	"fmt"
	"os"
	"os/exec"
	"path/filepath"
	"sort"
	"strings"

	"verifsim/core"
)

type describe struct {
	Name string   `json:"name"`
	Rule string   `json:"rule"`
	Real []string `json:"real"`
	Stub []string `json:"stub"`
}

func describeWorkload(b *builder, it planItem) describe {
	var d describe
	bin := b.build(it.variant)
	out, err := exec.Command(bin, "-describe", it.workload).Output()
	if err != nil {
		return d
	}
	json.Unmarshal(bytes.TrimSpace(out), &d)
	return d
}

func writeEvidence(def *checkDef, b *builder, results []*itemResult, nviol int, detRuns uint64, wall float64) {
	var evals, distinct, nontrivial, steps uint64
	counters := map[string]int64{}
	var rules []string
	var samples []interface{}
	var matrix []map[string]interface{}
	realSet, stubSet := map[string]bool{}, map[string]bool{}
	seenW := map[string]bool{}
	var simWall float64
	for _, r := range results {
		evals += r.evaluations
		distinct += r.distinct
		nontrivial += r.nontrivial
		steps += r.steps
		simWall += r.wall
		for n, c := range r.counters {
			counters[n] += c
		}
		matrix = append(matrix, map[string]interface{}{"workload": r.item.workload, "variant": r.item.variant, "runs": r.evaluations,
			"nontrivial": r.nontrivial, "distinct_nontrivial_lower_bound": r.distinct, "wall_s": round1(r.wall), "time_budget_reached": r.timedOut})
		if !seenW[r.item.workload] {
			seenW[r.item.workload] = true
			d := describeWorkload(b, r.item)
			if d.Rule != "" {
				rules = append(rules, r.item.workload+": "+d.Rule)
			}
			for _, x := range d.Real {
				realSet[x] = true
			}
			for _, x := range d.Stub {
				stubSet[x] = true
			}
			for _, s := range r.samples {
				if len(samples) < 4 {
					samples = append(samples, map[string]interface{}{"workload": r.item.workload, "variant": r.item.variant, "run_index": s.RunIndex, "run_seed": s.RunSeed, "trace": s.Trace})
				}
			}
		}
	}
	if len(samples) == 0 {
		samples = append(samples, "no non-trivial run was produced")
	}
	keys := func(m map[string]bool) []string {
		var k []string
		for x := range m {
			k = append(k, x)
		}
		sort.Strings(k)
		return k
	}
	perHour := 0.0
	if simWall > 0 {
		perHour = float64(evals) / simWall * 3600
	}
	zero := []string{}
	ran := map[string]bool{}
	for _, r := range results {
		ran[strings.ToLower(r.item.workload)] = true
	}
	for n, c := range counters {
		if c != 0 {
			continue
		}
		// only probes of workloads that actually ran in this tier
		dot := strings.IndexByte(n, '.')
		if dot > 0 && (ran[n[:dot]] || (len(n[:dot]) == 3 && ran[n[:dot]+"f"] == false && ranPrefix(ran, n[:dot]))) {
			zero = append(zero, n)
		}
	}
	sort.Strings(zero)
	for _, z := range zero {
		delete(counters, z)
	}
	if len(zero) > 0 {
		fmt.Printf("  warning: probes that stayed at zero in this run: %v\n", zero)
	}
	cov := map[string]interface{}{
		"evaluations":                     evals,
		"distinct_nontrivial":             distinct,
		"rule":                            fmt.Sprintf("%v  [distinct_nontrivial is a measured lower bound: fingerprints (SHA-256 of the merged event log) of non-trivial runs are hashed into a 2^26-bit bitmap per workload/variant and the set bits are counted; non-trivial runs total %d]", rules, nontrivial),
		"samples":                         samples,
		"nontrivial_runs":                 nontrivial,
		"runs_per_hour":                   uint64(perHour),
		"simulated_time":                  fmt.Sprintf("%d logical steps (the library has no clock; simulated time is the scheduler/workload step counter)", steps),
		"logical_steps":                   steps,
		"counters":                        counters,
		"counters_note":                   "fault kinds actually fired, probes for rare branches, scheduler statistics; measured on this run",
		"build_matrix":                    matrix,
		"components_real":                 keys(realSet),
		"components_stub":                 keys(stubSet),
		"instrumented_files":              b.files,
		"yield_sites":                     b.sites,
		"instrumented_files_wide_variant": b.filesW,
		"yield_sites_wide_variant":        b.sitesW,
		"determinism_reruns":              detRuns,
		"determinism_note":                "that many run indices were executed a second time in a separate process with a different GOMAXPROCS and worker layout; all fingerprints were identical (a mismatch is exit 2)",
		"zero_probes":                     zero,
		"seeds":                           fmt.Sprintf("base seed %d; run i of workload W uses splitmix(base, hash(W), i)", baseSeed),
		"repo":                            repoDir,
	}
	ev := map[string]interface{}{
		"property_id": def.property,
		"tier":        tier,
		"seed":        int64(baseSeed & 0x7fffffffffffffff),
		"level":       def.level,
		"coverage":    cov,
		"assumptions": def.assume,
		"wall_s":      round1(wall),
		"violations":  nviol,
	}
	dir := envOr("VERIF_EVIDENCE_DIR", filepath.Join(verifDir, "evidence"))
	os.MkdirAll(dir, 0o755)
	if err := core.WriteJSON(filepath.Join(dir, def.property+".json"), ev); err != nil {
		infra("%v", err)
	}
}

func ranPrefix(ran map[string]bool, p string) bool {
	for w := range ran {
		if strings.HasPrefix(w, p) {
			return true
		}
	}
	return false
}

func round1(f float64) float64 { return float64(int(f*10+0.5)) / 10 }

// differential is defined in diff.go
