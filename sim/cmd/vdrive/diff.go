package main

import (
	"fmt"
	"path/filepath"
	"sort"
	"strings"

	"verifsim/core"
)

// differential compares the per-index fingerprints of all plan items (same
// workload, different build variants).  A difference is a violation of the
// property the check decides (C06); the replay file names both variants.
func differential(b *builder, def *checkDef, results []*itemResult, outRoot string) []found {
	if len(results) < 2 {
		return nil
	}
	// the first plan item of each workload is the reference build of that workload
	refs := map[string]*itemResult{}
	refFPs := map[string]map[uint64]string{}
	var out []found
	for _, r := range results {
		ref := refs[r.item.workload]
		if ref == nil {
			refs[r.item.workload] = r
			refFPs[r.item.workload] = readFP(r.fplists)
			continue
		}
		refFP := refFPs[r.item.workload]
		fp := readFP(r.fplists)
		var idx []uint64
		for i, f := range fp {
			// the "!" suffix marks runs that reported a violation of their own; only the digests are compared
			if o, ok := refFP[i]; ok && strings.TrimSuffix(o, "!") != strings.TrimSuffix(f, "!") {
				idx = append(idx, i)
			}
		}
		if len(idx) == 0 {
			continue
		}
		sort.Slice(idx, func(i, j int) bool { return idx[i] < idx[j] })
		i := idx[0]
		path := filepath.Join(outRoot, fmt.Sprintf("replay-%s-diff-%s-%d.json", def.property, r.item.variant, i))
		detail := diffDetail(b, def, ref.item, r.item, i, path)
		v := core.Violation{Property: def.property, Class: "backend-divergence", Key: ref.item.variant + "-vs-" + r.item.variant,
			Detail: fmt.Sprintf("%d of %d compared run indices differ between %s and %s; first: index %d: %s", len(idx), len(fp), ref.item.variant, r.item.variant, i, detail)}
		out = append(out, found{Violation: v, Replay: path, RunIndex: i})
	}
	return out
}

type replayOut struct {
	Violations  []core.Violation `json:"violations"`
	Reproduced  bool             `json:"reproduced"`
	Fingerprint string           `json:"fingerprint"`
	Trace       []string         `json:"trace"`
}

// traceOf executes a replay file on a variant and returns fingerprint and trace.
func traceOf(b *builder, vn, path string) replayOut {
	v := variants[vn]
	bin := b.build(vn)
	args := append(v.workerArgs(), "-replay", path, "-v")
	c := execCommand(bin, args, v.env(b.dir, "t"))
	var out replayOut
	if err := jsonOut(c, &out); err != nil {
		infra("trace run on %s failed: %v", vn, err)
	}
	return out
}

func firstDiff(a, c []string) string {
	n := len(a)
	if len(c) < n {
		n = len(c)
	}
	for i := 0; i < n; i++ {
		if a[i] != c[i] {
			return fmt.Sprintf("event %d differs:\n    %s\n    %s", i+1, a[i], c[i])
		}
	}
	return fmt.Sprintf("traces have %d vs %d events", len(a), len(c))
}

func diffDetail(b *builder, def *checkDef, ref, it planItem, idx uint64, path string) string {
	runSeed := core.Mix(baseSeed, core.MixS(it.workload), idx)
	// record the tape on the reference variant
	rp := &core.Replay{Property: def.property, Phase: it.workload, Class: "backend-divergence", Key: ref.variant + "-vs-" + it.variant,
		BaseSeed: baseSeed, RunSeed: runSeed, RunIndex: idx, Tier: tier, RefVariant: ref.variant,
		Build: core.BuildInfo{Variant: it.variant, Tags: variants[it.variant].tags, Godebug: variants[it.variant].godebug}}
	rec := recordTape(b, ref.variant, it.workload, idx)
	rp.SetRec(rec)
	rp.TapeLenOrig = rp.TapeLen
	core.WriteJSON(path, rp)
	differs := func(c core.Rec) bool {
		cand := *rp
		cand.SetRec(c)
		tmp := path + ".cand.json"
		core.WriteJSON(tmp, &cand)
		a := traceOf(b, ref.variant, tmp)
		d := traceOf(b, it.variant, tmp)
		return a.Fingerprint != d.Fingerprint
	}
	if !differs(rec) {
		return "(divergence did not reproduce from the recorded tape)"
	}
	target := rp.Violation()
	best, execs := core.Shrink(rec, target, func(c core.Rec) []core.Violation {
		if differs(c) {
			return []core.Violation{target}
		}
		return nil
	}, 60, 120e9)
	rp.SetRec(best)
	rp.Minimised = true
	rp.ShrinkExecs = execs
	core.WriteJSON(path, rp)
	a := traceOf(b, ref.variant, path)
	d := traceOf(b, it.variant, path)
	rp.Trace = []string{"--- " + ref.variant}
	rp.Trace = append(rp.Trace, core.TrimTrace(a.Trace, 120)...)
	rp.Trace = append(rp.Trace, "--- "+it.variant)
	rp.Trace = append(rp.Trace, core.TrimTrace(d.Trace, 120)...)
	rp.Detail = firstDiff(a.Trace, d.Trace)
	core.WriteJSON(path, rp)
	return rp.Detail
}
