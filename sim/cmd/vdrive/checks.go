package main

// The plan of every registered check: which workloads run on which build
// variants and how many runs per tier.
var checks = map[string]*checkDef{
	"C18": {
		property: "C18", level: "exploration",
		plan: []planItem{
			{workload: "C18A", variant: "instr", quick: 200000, thorough: 12000000},
			{workload: "C18B", variant: "instr", quick: 20000, thorough: 1000000},
			{workload: "C18C", variant: "instr-race", quick: 2000, thorough: 100000},
			{workload: "C18C", variant: "instr-race-purego", quick: 800, thorough: 40000},
			{workload: "C18C", variant: "instr-race-noavx2", quick: 800, thorough: 40000},
			{workload: "C18D", variant: "instr-race", quick: 1600, thorough: 30000, cold: true},
			{workload: "C18E", variant: "instrw", quick: 4000, thorough: 200000},
			{workload: "C18E", variant: "instrw-race", quick: 800, thorough: 40000},
			{workload: "C18A", variant: "instr-race", quick: 16000, thorough: 0},
			{workload: "C18B", variant: "instr-race", quick: 3200, thorough: 0},
			{workload: "C18A", variant: "instr-race", thorough: 400000, thoroughOnly: true},
			{workload: "C18B", variant: "instr-race", thorough: 100000, thoroughOnly: true},
		},
		assume: []string{
			"interleavings are explored at statement granularity only inside files selected by the instrumentation rule (cache package + any file importing sync or sync/atomic); elsewhere tasks interleave at operation granularity and unsynchronised sharing is left to the race detector, which reports conflicting accesses regardless of timing because the token hand-off is invisible to it",
			"the Go race detector's bounded per-word access history",
			"porcupine v1.3.0 is a correct linearizability checker; its wall-clock timeout can only yield Unknown, which is counted and never reported",
		},
	},
	"C13": {
		property: "C13", level: "exploration",
		plan: []planItem{
			{workload: "C13", variant: "plain", quick: 60000, thorough: 1500000},
			{workload: "C13", variant: "purego", quick: 60000, thorough: 1500000},
			{workload: "C13C", variant: "instrs", quick: 6000, thorough: 300000},
			{workload: "C13C", variant: "instrs-purego", quick: 6000, thorough: 300000},
			{workload: "C13D", variant: "instrs", quick: 1200, thorough: 30000, cold: true},
			{workload: "C13", variant: "force32bit", thorough: 100000, thoroughOnly: true},
			{workload: "C13", variant: "noavx2", thorough: 100000, thoroughOnly: true},
		},
		assume: []string{
			"the reference model (Keccak-f[1600] from FIPS 202, STROBE-128 subset and Merlin v1.0 framing from their specifications, DESIGN Appendix A) is correct; it reproduces SHA3-256, SHAKE128 and both upstream Merlin vectors on every start-up",
			"for KEY / rekey / finalize / RNG reads upstream publishes no known answers; agreement of two independent derivations (model and library) is the evidence",
			"separation of sibling histories is checked on sampled single edits, not proved",
		},
	},
	"C19": {
		property: "C19", level: "fault_enumeration",
		plan: []planItem{
			{workload: "C19", variant: "plain", quick: 1400, thorough: 200000},
			{workload: "C19", variant: "purego", quick: 210, thorough: 1400},
			{workload: "C19", variant: "force32bit", quick: 210, thorough: 1400},
			{workload: "C19", variant: "noavx2", quick: 140, thorough: 1400},
		},
		assume: []string{
			"scope: artifacts the running system produced, under the faults storage and networks produce (enumerated per artifact); the universal claim over all byte strings is not decided, seeded random strings are added as noise only",
			"the list of documented panics is the one in DESIGN Appendix C",
			"neutral states: identity for Edwards/Ristretto points and their compressed forms, the reset state for sr25519 Signature/PublicKey/KeyPair; for all other receivers 'unchanged or neutral, never a hybrid' is demanded because nothing more is documented",
		},
	},
	"C09": {
		property: "C09", level: "exploration",
		plan: []planItem{
			{workload: "C09", variant: "plain", quick: 12000, thorough: 1000000},
			{workload: "C09C", variant: "instr", quick: 20000, thorough: 1000000},
			{workload: "C09C", variant: "instrc", quick: 600, thorough: 20000},
			{workload: "C09", variant: "noavx2", quick: 800, thorough: 15000},
			{workload: "C09", variant: "purego", quick: 800, thorough: 15000},
			{workload: "C09", variant: "force32bit", quick: 480, thorough: 8000},
		},
		assume: []string{
			"the per-entry reference decision is the library's own single verification (that is the property's definition); whether that decision is right against RFC 8032 / ZIP-215 is C01, which this technique does not decide, so a defect shared by all paths is silent here",
			"a documented panic of single verification (wrong key length, invalid options, wrong pre-hash length) counts as 'invalid', which is how the batch API treats the same entry",
			"a panic 'failed to initialize random scalar generator' is accepted only while an entropy-reader error is being injected",
		},
	},
	"C02": {
		property: "C02", level: "exploration",
		plan: []planItem{
			{workload: "C02", variant: "plain", quick: 16000, thorough: 2000000},
			{workload: "C02F", variant: "plain", quick: 160, thorough: 3200},
			{workload: "C02C", variant: "instrw", quick: 6000, thorough: 300000},
			{workload: "C02C", variant: "instrc", quick: 600, thorough: 20000},
			{workload: "C02", variant: "noavx2", quick: 1600, thorough: 40000},
			{workload: "C02", variant: "purego", quick: 1600, thorough: 40000},
			{workload: "C02", variant: "force32bit", quick: 1600, thorough: 20000},
		},
		assume: []string{
			"scope: exactness is decided on the seeds, messages and contexts the workload generates, against Go's crypto/ed25519 (go1.23) as an independent RFC 8032 implementation; the universal claim for seeds whose clamped scalar or nonce lands on special residues is not reachable by a schedule, stream or fault and is not decided",
			"an altered tuple that still verified would need a second valid encoding of a random R or a forgery; any acceptance after alteration is treated as a violation",
		},
	},
	"C12": {
		property: "C12", level: "exploration",
		plan: []planItem{
			{workload: "C12", variant: "plain", quick: 8000, thorough: 1000000},
			{workload: "C12C", variant: "instrw", quick: 3000, thorough: 150000},
			{workload: "C12C", variant: "instrc", quick: 600, thorough: 20000},
			{workload: "C12", variant: "purego", quick: 800, thorough: 30000},
			{workload: "C12", variant: "noavx2", quick: 800, thorough: 30000},
			{workload: "C12", variant: "force32bit", quick: 480, thorough: 15000},
		},
		assume: []string{
			"the reference model is fully independent of the library: schnorrkel logic (key expansion, witness, challenge, s, encodings) over the independent Merlin/STROBE/Keccak model, RFC 9496 ristretto255 encoding/decoding and RFC 8032 edwards25519 arithmetic over math/big; validated on every start by the Merlin vectors and the RFC 9496 generator-multiple and invalid-encoding vectors",
			"honest R is uniformly random, so an accidental second valid encoding of an altered tuple has negligible probability; any acceptance of an altered tuple is treated as a violation",
			"a signature's R is decompressed lazily: a non-canonical or swapped R is refused at Verify/Add, not by Signature.UnmarshalBinary; the XOF-read panic and the batch 'delinearization rng' panic are accepted only under an injected reader error",
		},
	},
	"C15": {
		property: "C15", level: "exploration",
		plan: []planItem{
			{workload: "C15", variant: "plain", quick: 2400, thorough: 200000},
			{workload: "C15C", variant: "instrw", quick: 1200, thorough: 60000},
			{workload: "C15C", variant: "instrc", quick: 1500, thorough: 30000},
			{workload: "C15", variant: "purego", quick: 320, thorough: 15000},
			{workload: "C15", variant: "noavx2", quick: 320, thorough: 15000},
			{workload: "C15", variant: "force32bit", quick: 240, thorough: 8000},
		},
		assume: []string{
			"the reference model is fully independent of the library: RFC 9381 protocol layer, RFC 8032 point arithmetic / encoding / decoding and the RFC 9380 suite edwards25519_XMD:SHA-512_ELL2_NU_ (expand_message_xmd, hash_to_field, Elligator 2, rational map, cofactor clearing) over crypto/sha512 and math/big, validated against the RFC 9381 vectors (incl. the intermediate value H) on every start",
			"dropping only the public-key canonicity check is undetectable by any black-box run: every decodable non-canonical encoding is a small-order point (still rejected by validate_key) or a point of unknown discrete log",
		},
	},
	"C06": {
		property: "C06", level: "exploration", differential: true,
		plan: []planItem{
			{workload: "C06", variant: "plain", quick: 1200, thorough: 40000},
			{workload: "C06", variant: "noavx2", quick: 1200, thorough: 40000},
			{workload: "C06", variant: "purego", quick: 1200, thorough: 40000},
			{workload: "C06", variant: "force32bit", quick: 1200, thorough: 40000},
			{workload: "C06C", variant: "instrs", quick: 4000, thorough: 200000},
			{workload: "C06C", variant: "instrs-purego", quick: 4000, thorough: 200000},
			{workload: "C06D", variant: "instrc", quick: 480, thorough: 12000, cold: true},
			{workload: "C06D", variant: "instrc-purego", quick: 480, thorough: 12000, cold: true},
		},
		assume: []string{
			"the oracle is self-differential: the same seeds are executed on the four builds (amd64 assembly + AVX2, GODEBUG=cpu.avx2=off, -tags purego, -tags force32bit) and the per-run event-log digests must be equal; a defect shared by all four backends is invisible",
			"a backend defect that needs a rare limb pattern (a lost carry at the top of the headroom) is only found if the tour's operands produce that pattern; that residual is C04/C05 territory, which this technique does not reach",
			"recovered panics are logged by occurrence, not by message, because two unreachable internal messages name their backend",
		},
	},
}
