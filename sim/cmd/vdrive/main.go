// vdrive is the check driver: it builds the worker variants from the current
// working tree of the repository, fans run indices out to worker processes,
// merges their results, confirms every violation by replaying it in a fresh
// process, applies known_findings.json, writes the evidence file and prints the
// VIOLATION / KNOWN-FINDING lines.
//
// exit 0  property held on everything explored (KNOWN-FINDING lines allowed)
// exit 1  at least one unlisted, replay-confirmed violation
// exit 2  infrastructure trouble (build, watchdog, nondeterminism, oracle KAT)
package main

import (
	"bytes"
	"encoding/binary"
	"encoding/json"
	"fmt"
	"math/bits"
	"os"
	"os/exec"
	"path/filepath"
	"runtime"
	"sort"
	"strconv"
	"strings"
	"sync"
	"time"

	"verifsim/core"
	"verifsim/instr"
)

type variant struct {
	name    string
	tags    string
	race    bool
	instr   bool
	wide    bool // statement yields also in every file under primitives/
	strobe  bool // ... and in internal/strobe/strobe.go
	curve   bool // ... and in curve/*.go (the group arithmetic)
	godebug string
	binOf   string // shares the binary of another variant
}

var variants = map[string]*variant{
	"plain":             {name: "plain"},
	"instr":             {name: "instr", instr: true},
	"instr-race":        {name: "instr-race", instr: true, race: true},
	"instr-race-purego": {name: "instr-race-purego", instr: true, race: true, tags: "purego"},
	"instr-race-noavx2": {name: "instr-race-noavx2", instr: true, race: true, godebug: "cpu.avx2=off", binOf: "instr-race"},
	"instrw":            {name: "instrw", instr: true, wide: true},
	"instrw-race":       {name: "instrw-race", instr: true, wide: true, race: true},
	"instrs":            {name: "instrs", instr: true, wide: true, strobe: true},
	"instrs-purego":     {name: "instrs-purego", instr: true, wide: true, strobe: true, tags: "purego"},
	"instrc":            {name: "instrc", instr: true, wide: true, strobe: true, curve: true},
	"instrc-purego":     {name: "instrc-purego", instr: true, wide: true, strobe: true, curve: true, tags: "purego"},
	"noavx2":            {name: "noavx2", godebug: "cpu.avx2=off", binOf: "plain"},
	"purego":            {name: "purego", tags: "purego"},
	"force32bit":        {name: "force32bit", tags: "force32bit"},
}

type planItem struct {
	workload string
	variant  string
	quick    uint64
	thorough uint64
	// only in thorough tier
	thoroughOnly bool
	// cold: one OS process per run, started with VERIF_COLD=1 (first-use races)
	cold bool
}

type checkDef struct {
	property string
	level    string
	plan     []planItem
	assume   []string
	// differential: all plan items must produce identical per-index fingerprints
	differential bool
}

var (
	verifDir  = envOr("VERIF_DIR", "/verif")
	repoDir   = envOr("VERIF_REPO", "/repo")
	tier      = envOr("VERIF_TIER", "quick")
	baseSeed  = envUint("VERIF_SEED", 1)
	jobs      = int(envUint("VERIF_JOBS", uint64(runtime.NumCPU())))
	simDir    string
	buildRoot string
	goEnv     []string
)

func envOr(k, d string) string {
	if v := os.Getenv(k); v != "" {
		return v
	}
	return d
}

func envUint(k string, d uint64) uint64 {
	if v := os.Getenv(k); v != "" {
		if n, err := strconv.ParseUint(v, 10, 64); err == nil {
			return n
		}
		// tolerate negative or odd seeds: hash them
		return core.MixS(v)
	}
	return d
}

func infra(format string, args ...interface{}) {
	fmt.Fprintf(os.Stderr, "vdrive: INFRASTRUCTURE: "+format+"\n", args...)
	os.Exit(2)
}

func main() {
	if len(os.Args) < 2 {
		fmt.Fprintln(os.Stderr, "usage: vdrive check <ID> | replay <file> | selftest-determinism [ID...] | list")
		os.Exit(2)
	}
	if tier != "quick" && tier != "thorough" {
		tier = "quick"
	}
	simDir = filepath.Join(verifDir, "sim")
	buildRoot = filepath.Join(verifDir, ".build")
	goEnv = append(os.Environ(), "GOFLAGS=-mod=mod", "GOPROXY=off", "GOSUMDB=off", "GOTOOLCHAIN=local", "GONOSUMDB=*", "GONOSUMCHECK=1")
	switch os.Args[1] {
	case "check":
		if len(os.Args) < 3 {
			infra("check needs a property id")
		}
		os.Exit(runCheck(os.Args[2]))
	case "replay":
		if len(os.Args) < 3 {
			infra("replay needs a file")
		}
		os.Exit(runReplay(os.Args[2]))
	case "selftest-models":
		b := newBuilder()
		c := exec.Command(b.build("plain"), "-selftest-models")
		c.Stdout, c.Stderr = os.Stdout, os.Stderr
		if err := c.Run(); err != nil {
			os.Exit(2)
		}
		os.Exit(0)
	case "selftest-determinism":
		os.Exit(selftestDeterminism(os.Args[2:]))
	case "list":
		var ids []string
		for id := range checks {
			ids = append(ids, id)
		}
		sort.Strings(ids)
		for _, id := range ids {
			fmt.Println(id)
		}
	default:
		infra("unknown command %q", os.Args[1])
	}
}

// ---- building -----------------------------------------------------------------

type builder struct {
	dir      string // build dir for this repo tree
	modfile  string
	overlay  string
	sites    int
	files    []string
	overlayW string
	sitesW   int
	filesW   []string
	overlayS string
	overlayC string
	overlayP string // sync-only overlay of the otherwise uninstrumented builds
	mu       sync.Mutex
	built    map[string]string
}

func newBuilder() *builder {
	abs, err := filepath.Abs(repoDir)
	if err != nil {
		infra("%v", err)
	}
	repoDir = abs
	if st, err := os.Stat(filepath.Join(repoDir, "go.mod")); err != nil || st.IsDir() {
		infra("no go.mod under VERIF_REPO=%s", repoDir)
	}
	b := &builder{built: map[string]string{}}
	b.dir = filepath.Join(buildRoot, "r"+strconv.FormatUint(core.MixS(repoDir)%1000000, 10))
	if err := os.MkdirAll(b.dir, 0o755); err != nil {
		infra("%v", err)
	}
	// go.mod / go.sum pointing at the tree under test
	mod, err := os.ReadFile(filepath.Join(simDir, "go.mod"))
	if err != nil {
		infra("%v", err)
	}
	ms := strings.Replace(string(mod), "=> /repo", "=> "+repoDir, 1)
	b.modfile = filepath.Join(b.dir, "go.mod")
	if err := os.WriteFile(b.modfile, []byte(ms), 0o644); err != nil {
		infra("%v", err)
	}
	sum, err := os.ReadFile(filepath.Join(simDir, "go.sum"))
	if err != nil {
		infra("%v", err)
	}
	if err := os.WriteFile(filepath.Join(b.dir, "go.sum"), sum, 0o644); err != nil {
		infra("%v", err)
	}
	return b
}

func (b *builder) goCmd(args ...string) *exec.Cmd {
	c := exec.Command("go", args...)
	c.Dir = simDir
	c.Env = goEnv
	return c
}

func (b *builder) ensureOverlayP() {
	if b.overlayP != "" {
		return
	}
	gen := filepath.Join(b.dir, "genp")
	os.RemoveAll(gen)
	if _, err := instr.GenerateMode(repoDir, gen, -1); err != nil {
		infra("instrumenter: %v", err)
	}
	b.overlayP = filepath.Join(gen, "overlay.json")
}

func (b *builder) ensureOverlayS() {
	if b.overlayS != "" {
		return
	}
	gen := filepath.Join(b.dir, "gens")
	os.RemoveAll(gen)
	if _, err := instr.GenerateMode(repoDir, gen, 2); err != nil {
		infra("instrumenter: %v", err)
	}
	b.overlayS = filepath.Join(gen, "overlay.json")
}

func (b *builder) ensureOverlayC() {
	if b.overlayC != "" {
		return
	}
	gen := filepath.Join(b.dir, "genc")
	os.RemoveAll(gen)
	if _, err := instr.GenerateMode(repoDir, gen, 3); err != nil {
		infra("instrumenter: %v", err)
	}
	b.overlayC = filepath.Join(gen, "overlay.json")
}

func (b *builder) ensureOverlay(wide bool) {
	if wide {
		if b.overlayW != "" {
			return
		}
		gen := filepath.Join(b.dir, "genw")
		os.RemoveAll(gen)
		res, err := instr.Generate(repoDir, gen, true)
		if err != nil {
			infra("instrumenter: %v", err)
		}
		b.overlayW = filepath.Join(gen, "overlay.json")
		b.sitesW = len(res.Sites)
		b.filesW = res.Files
		return
	}
	if b.overlay != "" {
		return
	}
	gen := filepath.Join(b.dir, "gen")
	os.RemoveAll(gen)
	res, err := instr.Generate(repoDir, gen, false)
	if err != nil {
		infra("instrumenter: %v", err)
	}
	b.overlay = filepath.Join(gen, "overlay.json")
	b.sites = len(res.Sites)
	b.files = res.Files
}

// build returns the worker binary of a variant, building it from the current tree.
func (b *builder) build(vn string) string {
	v := variants[vn]
	if v == nil {
		infra("unknown variant %s", vn)
	}
	if v.binOf != "" {
		return b.build(v.binOf)
	}
	b.mu.Lock()
	defer b.mu.Unlock()
	if p, ok := b.built[vn]; ok {
		return p
	}
	out := filepath.Join(b.dir, "vsim-"+vn)
	args := []string{"build", "-modfile=" + b.modfile, "-o", out}
	if v.tags != "" {
		args = append(args, "-tags", v.tags)
	}
	if v.race {
		args = append(args, "-race")
	}
	if !v.instr {
		b.ensureOverlayP()
		args = append(args, "-overlay", b.overlayP)
	}
	if v.instr {
		b.ensureOverlay(v.wide)
		if v.curve {
			b.ensureOverlayC()
			args = append(args, "-overlay", b.overlayC)
		} else if v.strobe {
			b.ensureOverlayS()
			args = append(args, "-overlay", b.overlayS)
		} else if v.wide {
			args = append(args, "-overlay", b.overlayW)
		} else {
			args = append(args, "-overlay", b.overlay)
		}
	}
	args = append(args, "./cmd/vsim")
	t0 := time.Now()
	c := b.goCmd(args...)
	var eb bytes.Buffer
	c.Stderr = &eb
	c.Stdout = &eb
	if err := c.Run(); err != nil {
		// distinguish "the tree does not compile" from "only the instrumented tree does not compile": both are exit 2
		infra("build of variant %s failed (%v):\n%s", vn, err, eb.String())
	}
	fmt.Printf("  built %-11s in %.1fs\n", vn, time.Since(t0).Seconds())
	b.built[vn] = out
	return out
}

// ---- running ------------------------------------------------------------------

type found struct {
	core.Violation
	Replay   string `json:"replay"`
	RunIndex uint64 `json:"run_index"`
}

type sample struct {
	RunIndex uint64   `json:"run_index"`
	RunSeed  uint64   `json:"run_seed"`
	Trace    []string `json:"trace"`
}

type workerResult struct {
	Workload    string           `json:"workload"`
	Variant     string           `json:"variant"`
	Evaluations uint64           `json:"evaluations"`
	Nontrivial  uint64           `json:"nontrivial"`
	Steps       uint64           `json:"steps"`
	Counters    map[string]int64 `json:"counters"`
	Violations  []found          `json:"violations"`
	Samples     []sample         `json:"samples"`
	WallS       float64          `json:"wall_s"`
	Bitmap      string           `json:"bitmap"`
	FPFold      string           `json:"fp_fold"`
	TimedOut    bool             `json:"timed_out"`
	InfraError  string           `json:"infra_error"`
}

type itemResult struct {
	item        planItem
	runs        uint64
	evaluations uint64
	nontrivial  uint64
	distinct    uint64
	steps       uint64
	counters    map[string]int64
	violations  []found
	samples     []sample
	wall        float64
	timedOut    bool
	fplists     []string
	outDir      string
	workers     int
	crashed     bool // a worker died with a fatal error of the Go runtime raised inside the library
}

func (v *variant) workerArgs() []string {
	a := []string{"-variant", v.name}
	if v.instr {
		a = append(a, "-instr")
	}
	if v.wide {
		a = append(a, "-wide")
	}
	if v.tags != "" {
		a = append(a, "-tags", v.tags)
	}
	return a
}

func (v *variant) env(outDir, id string) []string {
	e := append([]string{}, os.Environ()...)
	e = append(e, "GOMAXPROCS=2")
	if v.godebug != "" {
		e = append(e, "GODEBUG="+v.godebug)
	}
	if v.race {
		e = append(e, "GORACE=log_path="+filepath.Join(outDir, "race."+id)+" halt_on_error=0 exitcode=0 atexit_sleep_ms=0 history_size=2")
	}
	return e
}

func runItem(b *builder, it planItem, outRoot string, deadline float64) *itemResult {
	v := variants[it.variant]
	bin := b.build(it.variant)
	runs := it.quick
	if tier == "thorough" {
		runs = it.thorough
	}
	res := &itemResult{item: it, runs: runs, counters: map[string]int64{}}
	if runs == 0 {
		return res
	}
	outDir := filepath.Join(outRoot, it.workload+"-"+it.variant)
	os.RemoveAll(outDir)
	if err := os.MkdirAll(outDir, 0o755); err != nil {
		infra("%v", err)
	}
	res.outDir = outDir
	nw := jobs
	if uint64(nw) > runs || it.cold {
		nw = int(runs)
	}
	var wg sync.WaitGroup
	errs := make([]string, nw)
	fullErr := make([]string, nw)
	t0 := time.Now()
	res.workers = nw
	sem := make(chan struct{}, jobs)
	for k := 0; k < nw; k++ {
		k := k
		cnt := runs / uint64(nw)
		if uint64(k) < runs%uint64(nw) {
			cnt++
		}
		id := strconv.Itoa(k)
		fpl := filepath.Join(outDir, "fp."+id)
		res.fplists = append(res.fplists, fpl)
		args := append(v.workerArgs(), "-w", it.workload, "-seed", strconv.FormatUint(baseSeed, 10), "-start", strconv.Itoa(k),
			"-stride", strconv.Itoa(nw), "-count", strconv.FormatUint(cnt, 10), "-tier", tier, "-out", outDir, "-id", id,
			"-fplist", fpl, "-deadline", fmt.Sprintf("%.0f", deadline))
		if v.race {
			args = append(args, "-racelog", filepath.Join(outDir, "race."+id))
		}
		if it.cold {
			args = append(args, "-bitmapbits", "12")
		}
		wg.Add(1)
		go func() {
			defer wg.Done()
			sem <- struct{}{}
			defer func() { <-sem }()
			c := exec.Command(bin, args...)
			c.Env = v.env(outDir, id)
			if it.cold {
				c.Env = append(c.Env, "VERIF_COLD=1")
			}
			var eb bytes.Buffer
			c.Stderr = &eb
			c.Stdout = &eb
			done := make(chan error, 1)
			if err := c.Start(); err != nil {
				errs[k] = err.Error()
				return
			}
			go func() { done <- c.Wait() }()
			wd := time.Duration(deadline*2+600) * time.Second
			select {
			case err := <-done:
				if err != nil {
					errs[k] = fmt.Sprintf("worker %d: %v\n%s", k, err, tail(eb.String(), 4000))
					fullErr[k] = eb.String()
				}
			case <-time.After(wd):
				c.Process.Kill()
				errs[k] = fmt.Sprintf("worker %d: watchdog after %v\n%s", k, wd, tail(eb.String(), 4000))
			}
		}()
	}
	wg.Wait()
	res.wall = time.Since(t0).Seconds()
	dead := map[int]bool{}
	ncrash := 0
	for k, e := range errs {
		if e == "" {
			continue
		}
		// A fatal error of the Go runtime ("unlock of unlocked mutex", "concurrent map writes", stack
		// exhaustion ...) cannot be recovered by the worker.  If it was raised with a library frame
		// innermost, the run that was executing is a candidate violation, decided by replaying that
		// run from its seed in a fresh process; anything else stays an infrastructure error.
		msg, site := runtimeFatal(fullErr[k])
		class := "runtime-fatal"
		if site == "" {
			if hs := hungSite(fullErr[k]); hs != "" {
				msg, site, class = "the call does not return", hs, "does-not-terminate"
			}
		}
		if site != "" {
			dead[k] = true
			res.crashed = true
			if ncrash++; ncrash > 3 {
				continue
			}
			idx := crashedIndex(res.fplists[k], uint64(k), uint64(nw))
			path := writeCrashReplay(b, it, outDir, idx, class, msg, site, fullErr[k])
			res.violations = append(res.violations, found{core.Violation{Property: currentProperty, Class: class, Key: site + ": " + msg,
				Detail: crashDetail(class, msg, site)}, path, idx})
			res.crashed = true
			dead[k] = true
			continue
		}
		infra("workload %s on %s: %s", it.workload, it.variant, e)
	}
	merged := make([]uint64, 0)
	for k := 0; k < nw; k++ {
		if dead[k] {
			continue
		}
		var wr workerResult
		p := filepath.Join(outDir, fmt.Sprintf("result.%s.%d.json", it.workload, k))
		data, err := os.ReadFile(p)
		if err != nil {
			infra("missing worker result %s", p)
		}
		if err := json.Unmarshal(data, &wr); err != nil {
			infra("bad worker result %s: %v", p, err)
		}
		if wr.InfraError != "" {
			infra("%s", wr.InfraError)
		}
		res.evaluations += wr.Evaluations
		res.nontrivial += wr.Nontrivial
		res.steps += wr.Steps
		res.timedOut = res.timedOut || wr.TimedOut
		for n, c := range wr.Counters {
			res.counters[n] += c
		}
		res.violations = append(res.violations, wr.Violations...)
		if len(res.samples) < 3 {
			res.samples = append(res.samples, wr.Samples...)
		}
		if wr.Bitmap != "" {
			bb, err := os.ReadFile(wr.Bitmap)
			if err == nil {
				if len(merged) == 0 {
					merged = make([]uint64, len(bb)/8)
				}
				for i := range merged {
					merged[i] |= binary.LittleEndian.Uint64(bb[i*8:])
				}
			}
			os.Remove(wr.Bitmap)
		}
	}
	for _, w := range merged {
		res.distinct += uint64(bits.OnesCount64(w))
	}
	if len(res.samples) > 3 {
		res.samples = res.samples[:3]
	}
	return res
}

// runtimeFatal recognises a crash of the Go runtime ("fatal error: ...") in a worker's output and
// returns its message and the innermost frame of the running goroutine that is neither the runtime,
// the standard library nor the harness - provided that frame belongs to the library under test.
func runtimeFatal(out string) (msg, site string) {
	i := strings.Index(out, "fatal error: ")
	if i < 0 {
		if j := strings.Index(out, "runtime: goroutine stack exceeds"); j >= 0 {
			i = strings.Index(out[j:], "fatal error: ")
			if i >= 0 {
				i += j
			}
		}
		if i < 0 {
			return "", ""
		}
	}
	rest := out[i+len("fatal error: "):]
	msg = firstLine(rest)
	// the first goroutine block after the message is the one that was running
	g := strings.Index(rest, "\ngoroutine ")
	if g < 0 {
		return msg, ""
	}
	blk := rest[g+1:]
	if e := strings.Index(blk, "\n\n"); e >= 0 {
		blk = blk[:e]
	}
	const lib = "github.com/oasisprotocol/curve25519-voi/"
	for _, ln := range strings.Split(blk, "\n")[1:] {
		if strings.HasPrefix(ln, "\t") || ln == "" {
			continue
		}
		fn := ln
		if k := strings.LastIndex(fn, "("); k > 0 {
			fn = fn[:k]
		}
		switch {
		case strings.HasPrefix(fn, "runtime."), strings.HasPrefix(fn, "sync."), strings.HasPrefix(fn, "sync/"),
			strings.HasPrefix(fn, "internal/"), strings.HasPrefix(fn, "verifsim/simsync."), strings.HasPrefix(fn, "verifsim/rt.Yield"),
			strings.HasPrefix(fn, "container/"), fn == "panic", strings.HasPrefix(fn, "created by "):
			continue
		}
		if strings.HasPrefix(fn, lib) {
			return msg, strings.TrimPrefix(fn, lib)
		}
		return msg, ""
	}
	return msg, ""
}

// crashedIndex: the worker writes one line per completed run; the run that killed it is the next one.
func crashedIndex(fpl string, start, stride uint64) uint64 {
	data, _ := os.ReadFile(fpl)
	last, any := uint64(0), false
	for _, ln := range strings.Split(string(data), "\n") {
		f := strings.Fields(ln)
		if len(f) >= 2 {
			if v, err := strconv.ParseUint(f[0], 10, 64); err == nil {
				last, any = v, true
			}
		}
	}
	if !any {
		return start
	}
	return last + stride
}

func crashDetail(class, msg, site string) string {
	if class == "does-not-terminate" {
		return "a library call made by the workload did not return within the worker's real-time limit (innermost library frame: " + site + ")"
	}
	return "the Go runtime stopped the process inside the library: fatal error: " + msg + " (in " + site + ")"
}

// hungSite: the worker's watchdog fired and dumped all stacks; returns the innermost library frame of a
// goroutine that is running (not parked in the scheduler's pipe read, not the watchdog), "" if there is none.
func hungSite(out string) string {
	i := strings.Index(out, "vsim: WATCHDOG-STACKS\n")
	if i < 0 {
		return ""
	}
	const lib = "github.com/oasisprotocol/curve25519-voi/"
	for _, blk := range strings.Split(out[i:], "\n\n") {
		lines := strings.Split(strings.TrimSpace(blk), "\n")
		if len(lines) < 2 || !strings.HasPrefix(lines[0], "goroutine ") {
			continue
		}
		if !(strings.Contains(lines[0], "[running") || strings.Contains(lines[0], "[runnable")) || strings.Contains(blk, "main.init.0.func1") {
			continue
		}
		for _, ln := range lines[1:] {
			if strings.HasPrefix(ln, "\t") || ln == "" {
				continue
			}
			fn := ln
			if k := strings.LastIndex(fn, "("); k > 0 {
				fn = fn[:k]
			}
			if strings.HasPrefix(fn, "runtime.") || strings.HasPrefix(fn, "internal/") || strings.HasPrefix(fn, "math/") || strings.HasPrefix(fn, "crypto/") {
				continue
			}
			if strings.HasPrefix(fn, lib) {
				return strings.TrimPrefix(fn, lib)
			}
			break
		}
	}
	return ""
}

func writeCrashReplay(b *builder, it planItem, outDir string, idx uint64, class, msg, site, out string) string {
	v := variants[it.variant]
	rp := &core.Replay{Property: currentProperty, Phase: it.workload, Class: class, Key: site + ": " + msg,
		Detail:   crashDetail(class, msg, site),
		BaseSeed: baseSeed, RunIndex: idx, RunSeed: core.Mix(baseSeed, core.MixS(it.workload), idx), Tier: tier,
		Build:    core.BuildInfo{Variant: it.variant, Tags: v.tags, Godebug: v.godebug, Race: v.race, Instrumented: v.instr},
		FromSeed: true}
	rp.SetRec(core.Rec{})
	i := strings.Index(out, "fatal error: ")
	if class == "does-not-terminate" {
		i = strings.Index(out, "vsim: WATCHDOG:")
	}
	if i < 0 {
		i = 0
	}
	rp.Trace = strings.Split(tail(out[i:], 6000), "\n")
	if len(rp.Trace) > 60 {
		rp.Trace = rp.Trace[:60]
	}
	path := filepath.Join(outDir, fmt.Sprintf("replay-%s-%s-%d-%s-%04x.json", currentProperty, it.workload, rp.RunSeed, class, core.MixS(rp.Key)&0xffff))
	if err := core.WriteJSON(path, rp); err != nil {
		infra("%v", err)
	}
	return path
}

// replayCrash re-executes a runtime-fatal replay in a fresh process: reproduced iff the process dies
// again with a fatal error of the runtime at the same library site.
func replayCrash(b *builder, path string, rp *core.Replay, journal string) (bool, string) {
	v := variants[rp.Build.Variant]
	if v == nil {
		infra("replay %s names unknown variant %q", path, rp.Build.Variant)
	}
	bin := b.build(rp.Build.Variant)
	tmp, _ := os.MkdirTemp(b.dir, "rc")
	defer os.RemoveAll(tmp)
	args := append(v.workerArgs(), "-replay", path)
	if journal != "" {
		args = append(args, "-journal", journal)
	}
	if v.race {
		args = append(args, "-racelog", filepath.Join(tmp, "race.r"))
	}
	c := exec.Command(bin, args...)
	c.Env = append(v.env(tmp, "r"), coldEnv(rp.Phase)...)
	var eb bytes.Buffer
	c.Stderr = &eb
	c.Stdout = &eb
	done := make(chan error, 1)
	if err := c.Start(); err != nil {
		infra("replay: %v", err)
	}
	go func() { done <- c.Wait() }()
	select {
	case <-done:
	case <-time.After(300 * time.Second):
		c.Process.Kill()
		return false, ""
	}
	if rp.Class == "does-not-terminate" {
		hs := hungSite(eb.String())
		if hs == "" {
			return false, ""
		}
		// the innermost frame of a spinning call differs from dump to dump: the class and a library frame decide
		return true, hs + ": the call does not return"
	}
	msg, site := runtimeFatal(eb.String())
	if site == "" {
		return false, ""
	}
	return site+": "+msg == rp.Key, site + ": " + msg
}

// confirmCrash decides a runtime-fatal candidate: replay from the seed in a fresh process (journalling
// the draws), then turn the journal into a recorded tape and minimise it across processes.
func confirmCrash(b *builder, v found) (string, bool) {
	rp, err := core.ReadReplay(v.Replay)
	if err != nil {
		infra("%v", err)
	}
	jr := v.Replay + ".journal"
	defer os.Remove(jr)
	ok := false
	for attempt := 0; attempt < 3 && !ok; attempt++ {
		ok, _ = replayCrash(b, v.Replay, rp, jr)
	}
	if !ok {
		return v.Replay, false
	}
	data, _ := os.ReadFile(jr)
	rec := core.ReadJournal(data)
	cand := *rp
	cand.FromSeed = false
	cand.SetRec(rec)
	tmpf := v.Replay + ".cand.json"
	defer os.Remove(tmpf)
	core.WriteJSON(tmpf, &cand)
	if ok2, _ := replayCrash(b, tmpf, &cand, ""); !ok2 {
		return v.Replay, true // keep the from-seed form: it reproduces
	}
	orig := 0
	for i := range rec {
		orig += len(rec[i])
	}
	best, execs := core.Shrink(rec, v.Violation, func(c core.Rec) []core.Violation {
		cc := cand
		cc.SetRec(c)
		core.WriteJSON(tmpf, &cc)
		if ok, _ := replayCrash(b, tmpf, &cc, ""); ok {
			return []core.Violation{v.Violation}
		}
		return nil
	}, 80, 75*time.Second)
	cand.SetRec(best)
	cand.TapeLenOrig = orig
	cand.Minimised = true
	cand.ShrinkExecs = execs
	core.WriteJSON(tmpf, &cand)
	if ok3, _ := replayCrash(b, tmpf, &cand, ""); !ok3 {
		cand.SetRec(rec)
		cand.Minimised = false
	}
	core.WriteJSON(v.Replay, &cand)
	return v.Replay, true
}

func tail(s string, n int) string {
	if len(s) > n {
		return "..." + s[len(s)-n:]
	}
	return s
}

// ---- known findings -------------------------------------------------------------

type knownFinding struct {
	Property string `json:"property"`
	Class    string `json:"class"`
	Key      string `json:"key"`
	What     string `json:"what"`
}

type knownFile struct {
	Known []knownFinding `json:"known"`
	Fixed []string       `json:"fixed"`
}

func loadKnown() knownFile {
	var kf knownFile
	data, err := os.ReadFile(filepath.Join(verifDir, "known_findings.json"))
	if err != nil {
		return kf
	}
	if err := json.Unmarshal(data, &kf); err != nil {
		infra("known_findings.json: %v", err)
	}
	return kf
}

func (kf knownFile) match(v core.Violation) *knownFinding {
	for i := range kf.Known {
		k := &kf.Known[i]
		if k.Property == v.Property && k.Class == v.Class && k.Key == v.Key {
			return k
		}
	}
	return nil
}

// ---- check ----------------------------------------------------------------------

var currentProperty string

func runCheck(id string) int {
	def := checks[id]
	if def == nil {
		infra("no check registered for %s", id)
	}
	currentProperty = def.property
	t0 := time.Now()
	fmt.Printf("check %s tier=%s seed=%d repo=%s jobs=%d\n", id, tier, baseSeed, repoDir, jobs)
	b := newBuilder()
	outRoot := filepath.Join(b.dir, "out-"+id)
	os.RemoveAll(outRoot)
	os.MkdirAll(outRoot, 0o755)
	defer os.RemoveAll(outRoot)

	// build everything first (in parallel where independent)
	need := map[string]bool{}
	for _, it := range def.plan {
		if it.thoroughOnly && tier != "thorough" {
			continue
		}
		need[it.variant] = true
	}
	var vnames []string
	for v := range need {
		vnames = append(vnames, v)
	}
	sort.Strings(vnames)
	for _, v := range vnames {
		if variants[v] == nil {
			infra("check %s names unknown build variant %q", id, v)
		}
		if variants[v].instr {
			b.ensureOverlay(variants[v].wide)
			if variants[v].strobe {
				b.ensureOverlayS()
			}
		} else {
			b.ensureOverlayP()
		}
	}
	var bw sync.WaitGroup
	for _, v := range vnames {
		v := v
		bw.Add(1)
		go func() { defer bw.Done(); b.build(v) }()
	}
	bw.Wait()

	kf := loadKnown()
	var results []*itemResult
	deadline := 240.0
	if tier == "thorough" {
		deadline = 3600
	}
	for _, it := range def.plan {
		if it.thoroughOnly && tier != "thorough" {
			continue
		}
		if (tier == "thorough" && it.thorough == 0) || (tier != "thorough" && it.quick == 0) {
			continue
		}
		r := runItem(b, it, outRoot, deadline)
		fmt.Printf("  %-6s %-11s runs=%d nontrivial=%d distinct>=%d violations=%d %.1fs%s\n", it.workload, it.variant, r.evaluations, r.nontrivial, r.distinct, len(r.violations), r.wall, ifs(r.timedOut, " (time budget reached)", ""))
		results = append(results, r)
	}

	// determinism sample: re-execute a slice of indices of every item in another
	// process layout and compare fingerprints
	anyCrash := false
	for _, r := range results {
		anyCrash = anyCrash || r.crashed
	}
	var detRuns uint64
	var detMismatch string
	if !anyCrash {
		// (a worker that died would die again in the re-run; the crash is decided by its own replay below)
		detRuns, detMismatch = determinismSample(b, def, results, outRoot)
	}
	if detMismatch != "" {
		infra("nondeterminism detected: %s", detMismatch)
	}

	var vios []found
	if def.differential && !anyCrash {
		vios = append(vios, differential(b, def, results, outRoot)...)
	}
	for _, r := range results {
		vios = append(vios, r.violations...)
	}
	if def.differential {
		// "backend-concurrency" deviations are a matter of this (differential) check only when they
		// are backend-specific: seen on some build of a workload and never on another build of it.
		seenOn := map[string]map[string]bool{}
		variantsOf := map[string]map[string]bool{}
		for _, r := range results {
			if variantsOf[r.item.workload] == nil {
				variantsOf[r.item.workload] = map[string]bool{}
				seenOn[r.item.workload] = map[string]bool{}
			}
			variantsOf[r.item.workload][r.item.variant] = true
			for _, v := range r.violations {
				if v.Class == "backend-concurrency" {
					seenOn[r.item.workload][r.item.variant] = true
				}
			}
		}
		shared := false
		for w := range seenOn {
			if len(seenOn[w]) > 0 && len(seenOn[w]) == len(variantsOf[w]) {
				shared = true
			}
		}
		if shared {
			fmt.Println("  (concurrent deviations occur on every build: a defect in shared code, not a backend difference; not reported under this property)")
			var kept []found
			for _, v := range vios {
				if v.Class != "backend-concurrency" {
					kept = append(kept, v)
				}
			}
			vios = kept
		}
	}
	// de-duplicate by id, keep lowest run index
	sort.SliceStable(vios, func(i, j int) bool {
		if vios[i].ID() != vios[j].ID() {
			return vios[i].ID() < vios[j].ID()
		}
		return vios[i].RunIndex < vios[j].RunIndex
	})
	var uniq []found
	var raceCands []found
	for i, v := range vios {
		if i == 0 || vios[i-1].ID() != v.ID() {
			if v.Class == "data-race" {
				raceCands = append(raceCands, v)
				continue
			}
			uniq = append(uniq, v)
		}
	}
	// Data races: one race shows up under several stack pairs and in many runs.  The
	// detector never reports a false race, but whether it re-detects a given pair in a
	// fresh process is not fully deterministic (bounded shadow history, GC timing), so
	// candidates are tried in run order, three fresh processes each, until two are
	// confirmed.  None confirmed while some were observed is an infrastructure error.
	sort.SliceStable(raceCands, func(i, j int) bool { return raceCands[i].RunIndex < raceCands[j].RunIndex })
	confirmedRaces := 0
	for i, v := range raceCands {
		if confirmedRaces >= 2 || i >= 8 {
			break
		}
		if kf.match(v.Violation) != nil {
			uniq = append(uniq, v)
			continue
		}
		rp, err := core.ReadReplay(v.Replay)
		if err != nil {
			infra("%v", err)
		}
		okRace := false
		for attempt := 0; attempt < 3 && !okRace; attempt++ {
			okRace, _ = replayOnce(b, v.Replay, rp)
		}
		if !okRace && i < 3 {
			okRace = withHistory(b, v.Replay, rp)
		}
		if okRace {
			confirmedRaces++
			uniq = append(uniq, v)
		}
	}
	if len(raceCands) > 0 && confirmedRaces == 0 {
		known := 0
		for _, v := range raceCands {
			if kf.match(v.Violation) != nil {
				known++
			}
		}
		if known == 0 {
			infra("%d data-race reports were observed but none reproduced in a fresh process (first: %s)", len(raceCands), raceCands[0].Replay)
		}
	}

	replDir := filepath.Join(verifDir, "replays")
	if d := os.Getenv("VERIF_EVIDENCE_DIR"); d != "" {
		replDir = filepath.Join(d, "replays") // self-tests on scratch trees leave /verif untouched
	}
	exit := 0
	nviol := 0
	var lines []string
	reported := 0
	var unconfirmed []string
	for _, v := range uniq {
		if reported >= 6 && kf.match(v.Violation) == nil {
			fmt.Printf("  (further violation %s not confirmed individually: report limit reached)\n", v.ID())
			continue
		}
		if kf.match(v.Violation) == nil {
			reported++
		}
		if k := kf.match(v.Violation); k != nil {
			lines = append(lines, fmt.Sprintf("KNOWN-FINDING: property=%s %s/%s %s", v.Property, v.Class, v.Key, k.What))
			continue
		}
		// confirm in a fresh process (and minimise race-class tapes across processes)
		final, ok := confirm(b, v)
		if !ok {
			unconfirmed = append(unconfirmed, fmt.Sprintf("%s (run %d, %s)", v.ID(), v.RunIndex, v.Replay))
			fmt.Printf("  (violation %s of run %d did not reproduce on replay and is not reported)\n", v.ID(), v.RunIndex)
			continue
		}
		os.MkdirAll(replDir, 0o755)
		dst := filepath.Join(replDir, filepath.Base(final))
		copyFile(final, dst)
		nviol++
		exit = 1
		fmt.Printf("  violation %s: %s\n", v.ID(), firstLine(v.Detail))
		lines = append(lines, fmt.Sprintf("VIOLATION property=%s replay=%s", v.Property, dst))
	}
	if nviol == 0 && len(unconfirmed) > 0 {
		// something was observed but nothing could be reproduced: that is not a result
		infra("%d violation(s) were observed but none reproduced on replay; first: %s", len(unconfirmed), unconfirmed[0])
	}
	writeEvidence(def, b, results, nviol, detRuns, time.Since(t0).Seconds())
	for _, l := range lines {
		fmt.Println(l)
	}
	if exit == 0 {
		fmt.Printf("check %s: property held on everything explored (%.1fs)\n", id, time.Since(t0).Seconds())
	}
	return exit
}

func ifs(c bool, a, b string) string {
	if c {
		return a
	}
	return b
}

func firstLine(s string) string {
	if i := strings.IndexByte(s, '\n'); i >= 0 {
		return s[:i]
	}
	return s
}

func copyFile(src, dst string) {
	data, err := os.ReadFile(src)
	if err != nil {
		infra("%v", err)
	}
	if err := os.WriteFile(dst, data, 0o644); err != nil {
		infra("%v", err)
	}
}

// replayOnce runs a replay file in a fresh process; returns reproduced, violations.
func replayOnce(b *builder, path string, rp *core.Replay) (bool, []core.Violation) {
	if rp.RefVariant != "" {
		a := traceOf(b, rp.RefVariant, path)
		d := traceOf(b, rp.Build.Variant, path)
		if a.Fingerprint != d.Fingerprint {
			v := rp.Violation()
			v.Detail = firstDiff(a.Trace, d.Trace)
			return true, []core.Violation{v}
		}
		return false, nil
	}
	vn := rp.Build.Variant
	v := variants[vn]
	if v == nil {
		infra("replay %s names unknown variant %q", path, vn)
	}
	bin := b.build(vn)
	tmp, _ := os.MkdirTemp(b.dir, "rp")
	defer os.RemoveAll(tmp)
	args := append(v.workerArgs(), "-replay", path)
	if v.race {
		args = append(args, "-racelog", filepath.Join(tmp, "race.r"))
	}
	c := exec.Command(bin, args...)
	c.Env = append(v.env(tmp, "r"), coldEnv(rp.Phase)...)
	var ob, eb bytes.Buffer
	c.Stdout = &ob
	c.Stderr = &eb
	err := c.Run()
	code := 0
	if ee, ok := err.(*exec.ExitError); ok {
		code = ee.ExitCode()
	} else if err != nil {
		infra("replay: %v", err)
	}
	if code == 2 {
		infra("replay of %s failed: %s", path, tail(eb.String(), 2000))
	}
	var out struct {
		Violations []core.Violation `json:"violations"`
		Reproduced bool             `json:"reproduced"`
	}
	json.Unmarshal(ob.Bytes(), &out)
	return out.Reproduced, out.Violations
}

func confirm(b *builder, v found) (string, bool) {
	if v.Class == "runtime-fatal" {
		return confirmCrash(b, v)
	}
	if v.Class == "does-not-terminate" && strings.Contains(v.Replay, "-does-not-terminate-") {
		if rp, err := core.ReadReplay(v.Replay); err == nil && rp.FromSeed {
			// a hang found by the worker's watchdog: one replay from the seed (it takes the watchdog's limit again)
			ok, _ := replayCrash(b, v.Replay, rp, "")
			return v.Replay, ok
		}
	}
	rp, err := core.ReadReplay(v.Replay)
	if err != nil {
		infra("%v", err)
	}
	ok, _ := replayOnce(b, v.Replay, rp)
	if !ok {
		if !withHistory(b, v.Replay, rp) {
			return v.Replay, false
		}
		return v.Replay, true
	}
	if v.Class == "data-race" && !rp.Minimised {
		// minimise across fresh processes (the race runtime de-duplicates reports per process)
		tmpf := v.Replay + ".cand.json"
		rec := rp.Rec()
		orig := 0
		for i := range rec {
			orig += len(rec[i])
		}
		best, execs := core.Shrink(rec, v.Violation, func(c core.Rec) []core.Violation {
			cand := *rp
			cand.SetRec(c)
			core.WriteJSON(tmpf, &cand)
			_, vs := replayOnce(b, tmpf, &cand)
			return vs
		}, 150, 90*time.Second)
		os.Remove(tmpf)
		rp.SetRec(best)
		rp.TapeLenOrig = orig
		rp.Minimised = true
		rp.ShrinkExecs = execs
		core.WriteJSON(v.Replay, rp)
		ok, vs := false, []core.Violation(nil)
		for attempt := 0; attempt < 2 && !ok; attempt++ {
			ok, vs = replayOnce(b, v.Replay, rp)
		}
		if !ok {
			// the minimised tape does not re-detect the race reliably: report the original tape
			fmt.Printf("  (minimised tape of %s did not re-detect the race; keeping the recorded tape)\n", v.ID())
			rp.SetRec(rec)
			rp.Minimised = false
			core.WriteJSON(v.Replay, rp)
			for attempt := 0; attempt < 3 && !ok; attempt++ {
				ok, vs = replayOnce(b, v.Replay, rp)
			}
			if !ok {
				return v.Replay, false
			}
		}
		for _, x := range vs {
			if x.Class == "data-race" {
				// record what a fresh process prints for the final tape
				rp.Key, rp.Detail = x.Key, x.Detail
				core.WriteJSON(v.Replay, rp)
				break
			}
		}
	}
	return v.Replay, true
}

// withHistory retries a replay that did not reproduce in a fresh process with the
// process history of the original worker (the runs it executed before the failing
// one).  If that reproduces, the violation depends on state the library keeps
// between independent calls; the replay file is marked accordingly.
func withHistory(b *builder, path string, rp *core.Replay) bool {
	if rp.TapeOrig == nil || rp.RefVariant != "" {
		return false
	}
	rp.NeedsPrefix = true
	rp.Minimised = false
	core.WriteJSON(path, rp)
	ok, vs := replayOnce(b, path, rp)
	if !ok {
		return false
	}
	for _, x := range vs {
		if core.SameViolation(rp.Violation(), x) {
			rp.Detail = x.Detail + "\n[history-dependent: reproduces only after the " + strconv.FormatUint(rp.PrefixCount, 10) + " runs its worker executed before it; the library keeps state between independent calls]"
			break
		}
	}
	fmt.Printf("  (violation %s/%s reproduces only with its process history: %d earlier runs are replayed first)\n", rp.Class, rp.Key, rp.PrefixCount)
	core.WriteJSON(path, rp)
	return true
}

func runReplay(path string) int {
	rp, err := core.ReadReplay(path)
	if err != nil {
		infra("%v", err)
	}
	b := newBuilder()
	if rp.Class == "runtime-fatal" || (rp.Class == "does-not-terminate" && rp.FromSeed) {
		ok, got := replayCrash(b, path, rp, "")
		if got != "" {
			fmt.Printf("  observed %s/runtime-fatal/%s\n", rp.Property, got)
		}
		if ok {
			fmt.Printf("VIOLATION property=%s replay=%s\n", rp.Property, path)
			return 1
		}
		fmt.Printf("replay %s: recorded violation %s/%s did not occur on this tree\n", path, rp.Class, rp.Key)
		return 0
	}
	ok, vs := replayOnce(b, path, rp)
	for _, v := range vs {
		fmt.Printf("  observed %s: %s\n", v.ID(), firstLine(v.Detail))
	}
	if ok {
		fmt.Printf("VIOLATION property=%s replay=%s\n", rp.Property, path)
		return 1
	}
	fmt.Printf("replay %s: recorded violation %s/%s did not occur on this tree\n", path, rp.Class, rp.Key)
	return 0
}

// ---- determinism ------------------------------------------------------------------

func readFP(paths []string) map[uint64]string {
	m := map[uint64]string{}
	for _, p := range paths {
		data, err := os.ReadFile(p)
		if err != nil {
			continue
		}
		for _, ln := range strings.Split(string(data), "\n") {
			f := strings.Fields(ln)
			if len(f) >= 2 {
				i, _ := strconv.ParseUint(f[0], 10, 64)
				m[i] = f[1]
				if len(f) >= 3 && f[2] != "0" {
					m[i] = f[1] + "!" // the run reported a violation
				}
			}
		}
	}
	return m
}

// determinismSample re-runs the first indices of every plan item in one extra
// process with a different GOMAXPROCS and compares per-index fingerprints.
func determinismSample(b *builder, def *checkDef, results []*itemResult, outRoot string) (uint64, string) {
	var total uint64
	for _, r := range results {
		if r.evaluations == 0 {
			continue
		}
		n := r.evaluations / 50
		if n < 20 {
			n = 20
		}
		if n > 2000 {
			n = 2000
		}
		if n > r.evaluations {
			n = r.evaluations
		}
		v := variants[r.item.variant]
		bin := b.build(r.item.variant)
		fpl := filepath.Join(r.outDir, "fp.det")
		// Same process layout as worker 0 of the main run (same first index, same stride), so
		// that state the library legitimately keeps between calls (lazy initialisation) sees the
		// same history; what differs is the process, GOMAXPROCS and the machine load.
		stride := uint64(r.workers)
		if stride == 0 {
			stride = 1
		}
		if n > (r.evaluations+stride-1)/stride {
			n = (r.evaluations + stride - 1) / stride
		}
		var fpls []string
		runDet := func(start, count uint64, id string) {
			f := fpl + "." + id
			fpls = append(fpls, f)
			args := append(v.workerArgs(), "-w", r.item.workload, "-seed", strconv.FormatUint(baseSeed, 10), "-start", strconv.FormatUint(start, 10),
				"-stride", strconv.FormatUint(stride, 10), "-count", strconv.FormatUint(count, 10), "-tier", tier, "-out", r.outDir, "-id", "det"+id, "-fplist", f, "-noshrink")
			if v.race {
				args = append(args, "-racelog", filepath.Join(r.outDir, "race.det"+id))
			}
			if r.item.cold {
				args = append(args, "-bitmapbits", "12")
			}
			c := exec.Command(bin, args...)
			env := append(v.env(r.outDir, "det"+id), coldEnv(r.item.workload)...)
			env = append(env, "GOMAXPROCS=5")
			c.Env = env
			var eb bytes.Buffer
			c.Stderr = &eb
			c.Stdout = &eb
			if err := c.Run(); err != nil {
				infra("determinism re-run of %s failed: %v\n%s", r.item.workload, err, tail(eb.String(), 2000))
			}
		}
		if r.item.cold {
			if n > 24 {
				n = 24
			}
			for i := uint64(0); i < n; i++ {
				runDet(i, 1, strconv.FormatUint(i, 10))
			}
		} else {
			runDet(0, n, "0")
		}
		a := readFP(r.fplists)
		d := readFP(fpls)
		for i, fp := range d {
			if o, ok := a[i]; ok {
				total++
				if strings.HasSuffix(o, "!") || strings.HasSuffix(fp, "!") {
					// a run that reports a violation may do so only after certain earlier runs of
					// its process (library state leaking between calls); that is reported and
					// confirmed through the replay path, not treated as harness nondeterminism
					continue
				}
				if o != fp {
					return total, fmt.Sprintf("workload %s variant %s run index %d: fingerprint %s vs %s in a second process", r.item.workload, r.item.variant, i, o, fp)
				}
			}
		}
	}
	return total, ""
}

func selftestDeterminism(ids []string) int {
	if len(ids) == 0 {
		for id := range checks {
			ids = append(ids, id)
		}
		sort.Strings(ids)
	}
	b := newBuilder()
	outRoot := filepath.Join(b.dir, "out-det")
	os.RemoveAll(outRoot)
	os.MkdirAll(outRoot, 0o755)
	defer os.RemoveAll(outRoot)
	bad := 0
	for _, id := range ids {
		def := checks[id]
		if def == nil {
			infra("no check %s", id)
		}
		for _, it := range def.plan {
			if it.thoroughOnly && tier != "thorough" {
				continue
			}
			v := variants[it.variant]
			bin := b.build(it.variant)
			const n = 300
			var ref map[uint64]string
			for rep, gmp := range []string{"1", "4", "16"} {
				dir := filepath.Join(outRoot, fmt.Sprintf("%s-%s-%d", it.workload, it.variant, rep))
				os.MkdirAll(dir, 0o755)
				fpl := filepath.Join(dir, "fp")
				args := append(v.workerArgs(), "-w", it.workload, "-seed", strconv.FormatUint(baseSeed, 10), "-start", "0", "-stride", "1",
					"-count", strconv.Itoa(n), "-tier", tier, "-out", dir, "-id", "d", "-fplist", fpl, "-noshrink")
				if v.race {
					args = append(args, "-racelog", filepath.Join(dir, "race.d"))
				}
				c := exec.Command(bin, args...)
				c.Env = append(v.env(dir, "d"), "GOMAXPROCS="+gmp)
				if out, err := c.CombinedOutput(); err != nil {
					infra("determinism run failed: %v\n%s", err, tail(string(out), 2000))
				}
				m := readFP([]string{fpl})
				if ref == nil {
					ref = m
					continue
				}
				for i, fp := range m {
					if ref[i] != fp {
						fmt.Printf("NONDETERMINISM %s %s index %d GOMAXPROCS=%s\n", it.workload, it.variant, i, gmp)
						bad++
					}
				}
			}
			fmt.Printf("  %s %s: %d seeds x 3 processes (GOMAXPROCS 1/4/16) identical=%v\n", it.workload, it.variant, n, bad == 0)
		}
	}
	if bad > 0 {
		return 2
	}
	fmt.Println("determinism self-test passed")
	return 0
}

func execCommand(bin string, args []string, env []string) *exec.Cmd {
	c := exec.Command(bin, args...)
	c.Env = env
	return c
}

// jsonOut runs c and decodes its stdout; exit codes 0 and 1 are both fine.
func jsonOut(c *exec.Cmd, v interface{}) error {
	var ob, eb bytes.Buffer
	c.Stdout = &ob
	c.Stderr = &eb
	err := c.Run()
	if ee, ok := err.(*exec.ExitError); ok {
		if ee.ExitCode() != 1 {
			return fmt.Errorf("exit %d: %s", ee.ExitCode(), tail(eb.String(), 2000))
		}
	} else if err != nil {
		return err
	}
	return json.Unmarshal(ob.Bytes(), v)
}

// recordTape runs one index on a variant and returns the tape it consumed.
func recordTape(b *builder, vn, workload string, idx uint64) core.Rec {
	v := variants[vn]
	bin := b.build(vn)
	args := append(v.workerArgs(), "-w", workload, "-seed", strconv.FormatUint(baseSeed, 10), "-start", strconv.FormatUint(idx, 10), "-count", "1", "-tier", tier, "-dumptape")
	var out struct {
		Tape map[string][]uint32 `json:"tape"`
	}
	if err := jsonOut(execCommand(bin, args, v.env(b.dir, "t")), &out); err != nil {
		infra("recording tape on %s: %v", vn, err)
	}
	rp := core.Replay{Tape: out.Tape}
	return rp.Rec()
}

// coldEnv: workers of the cold-start workload must not run harness initialisers
// that call into the library.
func coldEnv(workload string) []string {
	if workload == "C18D" || workload == "C13D" || workload == "C06D" {
		return []string{"VERIF_COLD=1"}
	}
	return nil
}
