// vsim is the simulation worker: it executes a range of run indices of one
// workload on the build variant it was compiled as, or replays one tape.
package main

import (
	"encoding/binary"
	"encoding/json"
	"flag"
	"fmt"
	"os"
	"path/filepath"
	"regexp"
	"runtime"
	"runtime/debug"
	"sort"
	"strings"
	"sync"
	"time"

	"verifsim/core"
	"verifsim/model"
	"verifsim/rt"
	"verifsim/work"
)

type Found struct {
	core.Violation
	Replay   string `json:"replay"`
	RunIndex uint64 `json:"run_index"`
}

type Sample struct {
	RunIndex uint64   `json:"run_index"`
	RunSeed  uint64   `json:"run_seed"`
	Trace    []string `json:"trace"`
}

type Result struct {
	Workload    string           `json:"workload"`
	Variant     string           `json:"variant"`
	Evaluations uint64           `json:"evaluations"`
	Nontrivial  uint64           `json:"nontrivial"`
	Steps       uint64           `json:"steps"`
	Counters    map[string]int64 `json:"counters"`
	Violations  []Found          `json:"violations"`
	Samples     []Sample         `json:"samples"`
	WallS       float64          `json:"wall_s"`
	Bitmap      string           `json:"bitmap"`
	FPFold      string           `json:"fp_fold"`
	TimedOut    bool             `json:"timed_out"`
	InfraError  string           `json:"infra_error,omitempty"`
}

var bitmapBits uint64 = 1 << 26

var (
	fW          = flag.String("w", "", "workload name")
	fSeed       = flag.Uint64("seed", 1, "base seed (VERIF_SEED)")
	fStart      = flag.Uint64("start", 0, "first run index")
	fCount      = flag.Uint64("count", 1, "number of runs")
	fStride     = flag.Uint64("stride", 1, "index stride (worker k of n runs start+k, start+k+n, ...)")
	fTier       = flag.String("tier", "quick", "quick|thorough")
	fOut        = flag.String("out", "", "output directory")
	fID         = flag.String("id", "0", "worker id (file names)")
	fVariant    = flag.String("variant", "plain", "build variant name")
	fInstr      = flag.Bool("instr", false, "binary was built with the statement-yield overlay")
	fWide       = flag.Bool("wide", false, "the overlay also instruments every file under primitives/")
	fTags       = flag.String("tags", "", "build tags used (recorded in replay files)")
	fReplay     = flag.String("replay", "", "replay file: execute its tape once and print the violations as JSON")
	fNoShrink   = flag.Bool("noshrink", false, "do not minimise failing tapes in-process")
	fDeadline   = flag.Float64("deadline", 0, "stop starting new runs after this many seconds (0 = none)")
	fFPList     = flag.String("fplist", "", "write 'index fingerprint' lines to this file (determinism self-test)")
	fRaceLog    = flag.String("racelog", "", "race detector log_path prefix (the runtime appends .<pid>)")
	fMaxViol    = flag.Int("maxviol", 3, "stop collecting after this many distinct violations")
	fDumpTape   = flag.Bool("dumptape", false, "execute run -start once and print the tape it consumed as JSON")
	fBmBits     = flag.Uint("bitmapbits", 26, "log2 of the distinct-fingerprint bitmap size")
	fSelfModels = flag.Bool("selftest-models", false, "run the known-answer tests of the reference models")
	fList       = flag.Bool("list", false, "list workloads")
	fDescribe   = flag.String("describe", "", "print the evidence description of a workload as JSON")
	fVerbose    = flag.Bool("v", false, "with -replay: print the trace")
	fJournal    = flag.String("journal", "", "with -replay of a from-seed file: write every generated draw to this file as it is made")
)

func main() {
	flag.Parse()
	if *fSelfModels {
		fail := 0
		for _, t := range []struct {
			name string
			f    func() error
		}{{"LRU sequential model", model.LRUSelfTest}, {"Keccak-f / STROBE-128 / Merlin model (SHA3-256, SHAKE128, two upstream Merlin vectors)", model.SelfTestMerlin}, {"ECVRF RFC 9381 model (Appendix B.3 vectors, draft-10 vectors, hand-made rejections)", model.SelfTestECVRF}} {
			if err := t.f(); err != nil {
				fmt.Printf("FAIL %s: %v\n", t.name, err)
				fail++
			} else {
				fmt.Printf("ok   %s\n", t.name)
			}
		}
		if fail > 0 {
			os.Exit(2)
		}
		return
	}
	bitmapBits = 1 << *fBmBits
	if *fList {
		for _, n := range work.Names() {
			w := work.Get(n)
			fmt.Printf("%s %s %v\n", n, w.Property, w.Variants)
		}
		return
	}
	if *fDescribe != "" {
		if w := work.Get(*fDescribe); w != nil {
			b, _ := json.Marshal(map[string]interface{}{"name": w.Name, "rule": w.Rule, "real": w.Real, "stub": w.Stub})
			fmt.Println(string(b))
		}
		return
	}
	w := work.Get(*fW)
	if w == nil && *fReplay == "" {
		fmt.Fprintln(os.Stderr, "vsim: unknown workload", *fW)
		os.Exit(2)
	}
	env := &work.Env{Sim: rt.New(), Tier: *fTier, Race: raceEnabled, Instr: *fInstr, Wide: *fWide, Variant: *fVariant}
	if raceEnabled && *fRaceLog != "" {
		env.RaceCheck = newRaceWatcher(fmt.Sprintf("%s.%d", *fRaceLog, os.Getpid()))
	}
	if *fReplay != "" {
		os.Exit(doReplay(env))
	}
	if w.Init != nil {
		if err := w.Init(env); err != nil {
			fmt.Fprintln(os.Stderr, "vsim: oracle self-test failed:", err)
			os.Exit(2)
		}
	}
	if *fDumpTape {
		runSeed := core.Mix(*fSeed, core.MixS(w.Name), *fStart)
		tape := core.NewTape(runSeed)
		if _, infra := execute(env, w, runSeed, *fStart, tape, false); infra != "" {
			fmt.Fprintln(os.Stderr, infra)
			os.Exit(2)
		}
		rp := &core.Replay{}
		rp.SetRec(tape.Record())
		b, _ := json.Marshal(map[string]interface{}{"tape": rp.Tape})
		fmt.Println(string(b))
		return
	}
	res := &Result{Workload: w.Name, Variant: *fVariant, Counters: map[string]int64{}}
	bitmap := make([]uint64, bitmapBits/64)
	seen := map[string]bool{}
	var fold [32]byte
	var fpl *os.File
	if *fFPList != "" {
		var err error
		if fpl, err = os.Create(*fFPList); err != nil {
			fmt.Fprintln(os.Stderr, err)
			os.Exit(2)
		}
		defer fpl.Close()
	}
	start := time.Now()
	totals := make([]int64, len(core.CounterNames()))
	for i := uint64(0); i < *fCount; i++ {
		if *fDeadline > 0 && time.Since(start).Seconds() > *fDeadline {
			res.TimedOut = true
			break
		}
		if work.Hung {
			// a library call of an earlier run never returned (reported by that run); its goroutine
			// is still spinning, so this process is finished
			res.TimedOut = true
			break
		}
		idx := *fStart + i**fStride
		runSeed := core.Mix(*fSeed, core.MixS(w.Name), idx)
		tape := core.NewTape(runSeed)
		r, infra := execute(env, w, runSeed, idx, tape, false)
		if infra != "" {
			res.InfraError = infra
			break
		}
		res.Evaluations++
		res.Steps += r.Steps()
		for k, v := range r.Counters() {
			totals[k] += v
		}
		for k := range fold {
			fold[k] ^= r.Fingerprint[k]
		}
		if fpl != nil {
			fmt.Fprintf(fpl, "%d %x %d\n", idx, r.Fingerprint[:16], len(r.Violations))
		}
		if r.Nontrivial {
			res.Nontrivial++
			h := r.FP64() % bitmapBits
			bitmap[h/64] |= 1 << (h % 64)
			if len(res.Samples) < 2 {
				res.Samples = append(res.Samples, Sample{idx, runSeed, core.TrimTrace(rerunTrace(env, w, runSeed, idx, tape), 60)})
			}
		}
		for _, v := range r.Violations {
			if seen[v.ID()] || len(res.Violations) >= *fMaxViol {
				continue
			}
			seen[v.ID()] = true
			path := writeReplay(env, w, v, runSeed, idx, tape.Record(), r.Trace, i)
			res.Violations = append(res.Violations, Found{v, path, idx})
		}
	}
	res.WallS = time.Since(start).Seconds()
	prefix := strings.ToLower(w.Property) // counters of this property's workloads are reported even when zero (probes)
	for k, n := range core.CounterNames() {
		if strings.HasPrefix(n, "~") {
			continue // an unused slot of a lazily named counter block
		}
		if totals[k] != 0 || strings.HasPrefix(n, prefix) {
			res.Counters[n] = totals[k]
		}
	}
	res.FPFold = fmt.Sprintf("%x", fold[:16])
	if *fOut != "" {
		bp := filepath.Join(*fOut, fmt.Sprintf("bitmap.%s.%s", w.Name, *fID))
		bb := make([]byte, len(bitmap)*8)
		for i, v := range bitmap {
			binary.LittleEndian.PutUint64(bb[i*8:], v)
		}
		if err := os.WriteFile(bp, bb, 0o644); err == nil {
			res.Bitmap = bp
		}
		if err := core.WriteJSON(filepath.Join(*fOut, fmt.Sprintf("result.%s.%s.json", w.Name, *fID)), res); err != nil {
			fmt.Fprintln(os.Stderr, err)
			os.Exit(2)
		}
	} else {
		b, _ := json.MarshalIndent(res, "", " ")
		fmt.Println(string(b))
	}
	if res.InfraError != "" {
		fmt.Fprintln(os.Stderr, "vsim: infrastructure error:", res.InfraError)
		os.Exit(2)
	}
}

// execute performs one run.  A panic that escapes the workload is a harness
// defect (workloads guard the library calls whose panics are meaningful), hence
// an infrastructure error, never a violation.
func execute(env *work.Env, w *work.Workload, runSeed, idx uint64, tape *core.Tape, verbose bool) (r *core.Run, infra string) {
	watchRun(w.Name, idx, runSeed)
	defer watchRun("", 0, 0)
	r = core.NewRun(w.Property, w.Phase, runSeed, idx, tape, verbose)
	func() {
		defer func() {
			if e := recover(); e != nil {
				stack := string(debug.Stack())
				if fn := libraryPanicSite(stack); fn != "" && !strings.HasPrefix(fmt.Sprint(e), "harness:") {
					// The library itself panicked while the workload was using it in a way every
					// workload considers well-formed (workloads guard the calls whose panics are
					// part of what they decide).  That is a failure of the operation under the
					// run's property, not an infrastructure problem.
					r.Fail("library-panic", fn, "the library panicked during well-formed use: %v (in %s)", e, fn)
					return
				}
				infra = fmt.Sprintf("workload %s run %d (seed %d) panicked outside a guarded call: %v\n%s", w.Name, idx, runSeed, e, stack)
			}
		}()
		w.Run(env, r)
	}()
	if infra != "" {
		return r, infra
	}
	r.Finish()
	// Race reports are de-duplicated per process by the race runtime, so which run
	// first shows a given report depends on the process history; they are therefore
	// kept out of the run's event log and fingerprint.
	if env.RaceCheck != nil {
		if rep := env.RaceCheck(); rep != "" {
			seen := map[string]bool{}
			for _, one := range strings.Split(rep, "==================\nWARNING: DATA RACE") {
				if !strings.Contains(one, " at 0x") {
					continue
				}
				key := raceKey(one)
				if seen[key] {
					continue
				}
				seen[key] = true
				r.Violations = append(r.Violations, core.Violation{Property: r.Property, Class: "data-race", Key: key,
					Detail: "race detector report inside the deterministic schedule: WARNING: DATA RACE" + strings.TrimRight(one, "=\n")})
			}
		}
	}
	return r, ""
}

// libraryPanicSite returns the innermost non-runtime function of a panic stack if it
// belongs to the library under test, "" otherwise.
func libraryPanicSite(stack string) string {
	lines := strings.Split(stack, "\n")
	seenPanic := false
	for _, ln := range lines {
		if strings.HasPrefix(ln, "panic(") {
			seenPanic = true
			continue
		}
		if !seenPanic || strings.HasPrefix(ln, "\t") || strings.HasPrefix(ln, "runtime.") || strings.HasPrefix(ln, "runtime/") {
			continue
		}
		fn := ln
		if i := strings.LastIndexByte(fn, '('); i > 0 {
			fn = fn[:i]
		}
		// frames of the standard library between the panic and its caller (e.g. crypto/sha512) are skipped
		if strings.Contains(fn, "oasisprotocol/curve25519-voi/") {
			return strings.TrimPrefix(fn, "github.com/oasisprotocol/curve25519-voi/")
		}
		if strings.HasPrefix(fn, "verifsim/") || strings.HasPrefix(fn, "main.") {
			return ""
		}
	}
	return ""
}

func rerunTrace(env *work.Env, w *work.Workload, runSeed, idx uint64, tape *core.Tape) []string {
	if env.Race {
		return []string{"(trace not re-rendered in race builds)"}
	}
	r, infra := execute(env, w, runSeed, idx, core.ReplayTape(tape.Record()), true)
	if infra != "" {
		return []string{"(re-run failed)"}
	}
	return r.Trace
}

func buildInfo(env *work.Env) core.BuildInfo {
	return core.BuildInfo{Variant: env.Variant, Tags: *fTags, Godebug: os.Getenv("GODEBUG"), Race: env.Race, Instrumented: env.Instr}
}

func writeReplay(env *work.Env, w *work.Workload, v core.Violation, runSeed, idx uint64, rec core.Rec, trace []string, before uint64) string {
	rp := &core.Replay{Property: v.Property, Phase: w.Name, Class: v.Class, Key: v.Key, Detail: v.Detail,
		BaseSeed: *fSeed, RunSeed: runSeed, RunIndex: idx, Tier: *fTier, Build: buildInfo(env),
		PrefixStart: *fStart, PrefixStride: *fStride, PrefixCount: before}
	{
		o := &core.Replay{}
		o.SetRec(rec)
		rp.TapeOrig = o.Tape
	}
	orig := 0
	for i := range rec {
		orig += len(rec[i])
	}
	rp.TapeLenOrig = orig
	if !*fNoShrink && v.Class != "data-race" && v.Class != "does-not-terminate" {
		best, execs := core.Shrink(rec, v, func(c core.Rec) []core.Violation {
			r, infra := execute(env, w, runSeed, idx, core.ReplayTape(c), false)
			if infra != "" {
				return nil
			}
			return r.Violations
		}, 1500, 40*time.Second)
		rp.ShrinkExecs = execs
		rp.Minimised = true
		r, _ := execute(env, w, runSeed, idx, core.ReplayTape(best), true)
		for _, vv := range r.Violations {
			if core.SameViolation(v, vv) {
				rp.Detail = vv.Detail
			}
		}
		rec, trace = best, r.Trace
	}
	rp.SetRec(rec)
	rp.Trace = core.TrimTrace(trace, 400)
	dir := *fOut
	if dir == "" {
		dir = "."
	}
	path := filepath.Join(dir, fmt.Sprintf("replay-%s-%s-%d-%s-%04x.json", v.Property, w.Name, runSeed, safe(v.Class+"-"+v.Key), core.MixS(v.ID())&0xffff))
	if err := core.WriteJSON(path, rp); err != nil {
		fmt.Fprintln(os.Stderr, "vsim:", err)
	}
	return path
}

var unsafeRe = regexp.MustCompile(`[^A-Za-z0-9_.-]+`)

func safe(s string) string {
	s = unsafeRe.ReplaceAllString(s, "_")
	if len(s) > 60 {
		s = s[:60]
	}
	return s
}

// doReplay executes the tape of a replay file once in this fresh process and
// prints {"violations":[...]}; exit 1 iff the recorded violation reproduced.
func doReplay(env *work.Env) int {
	rp, err := core.ReadReplay(*fReplay)
	if err != nil {
		fmt.Fprintln(os.Stderr, "vsim:", err)
		return 2
	}
	w := work.Get(rp.Phase)
	if w == nil {
		fmt.Fprintln(os.Stderr, "vsim: replay names unknown workload", rp.Phase)
		return 2
	}
	env.Tier = rp.Tier
	if w.Init != nil {
		if err := w.Init(env); err != nil {
			fmt.Fprintln(os.Stderr, "vsim: oracle self-test failed:", err)
			return 2
		}
	}
	rec := rp.Rec()
	if rp.NeedsPrefix {
		// re-create the process history the failing run had
		for i := uint64(0); i < rp.PrefixCount; i++ {
			idx := rp.PrefixStart + i*rp.PrefixStride
			seed := core.Mix(rp.BaseSeed, core.MixS(w.Name), idx)
			if _, infra := execute(env, w, seed, idx, core.NewTape(seed), false); infra != "" {
				fmt.Fprintln(os.Stderr, "vsim:", infra)
				return 2
			}
		}
		rec = rp.OrigRec()
	}
	tape := core.ReplayTape(rec)
	if rp.FromSeed {
		// the recorded run killed its process (fatal error of the Go runtime): regenerate it from the seed
		rp.RunSeed = core.Mix(rp.BaseSeed, core.MixS(w.Name), rp.RunIndex)
		tape = core.NewTape(rp.RunSeed)
		if *fJournal != "" {
			jf, err := os.OpenFile(*fJournal, os.O_CREATE|os.O_WRONLY|os.O_TRUNC, 0o644)
			if err != nil {
				fmt.Fprintln(os.Stderr, "vsim:", err)
				return 2
			}
			tape.JournalTo(int(jf.Fd()))
			defer jf.Close()
		}
	}
	r, infra := execute(env, w, rp.RunSeed, rp.RunIndex, tape, true)
	if infra != "" {
		fmt.Fprintln(os.Stderr, "vsim:", infra)
		return 2
	}
	out := struct {
		Violations  []core.Violation `json:"violations"`
		Reproduced  bool             `json:"reproduced"`
		Fingerprint string           `json:"fingerprint"`
		Trace       []string         `json:"trace,omitempty"`
	}{Violations: r.Violations, Fingerprint: fmt.Sprintf("%x", r.Fingerprint[:16])}
	for _, v := range r.Violations {
		if core.SameViolation(rp.Violation(), v) {
			out.Reproduced = true
		}
	}
	if *fVerbose {
		out.Trace = r.Trace
	}
	b, _ := json.MarshalIndent(out, "", " ")
	fmt.Println(string(b))
	if out.Reproduced {
		return 1
	}
	return 0
}

// ---- race log ---------------------------------------------------------------

func newRaceWatcher(path string) func() string {
	var off int64
	return func() string {
		st, err := os.Stat(path)
		if err != nil || st.Size() <= off {
			return ""
		}
		f, err := os.Open(path)
		if err != nil {
			return ""
		}
		defer f.Close()
		buf := make([]byte, st.Size()-off)
		if _, err := f.ReadAt(buf, off); err != nil {
			return ""
		}
		off = st.Size()
		return string(buf)
	}
}

var frameRe = regexp.MustCompile(`(?m)^  (\S+)\(\)$`)

// raceKey summarises a report by the first library frame of each access.
func raceKey(rep string) string {
	var fns []string
	for _, blk := range strings.Split(rep, "\n\n") {
		if !(strings.Contains(blk, "rite at 0x") || strings.Contains(blk, "ead at 0x")) {
			continue
		}
		for _, m := range frameRe.FindAllStringSubmatch(blk, -1) {
			fn := m[1]
			if strings.HasPrefix(fn, "runtime.") || strings.HasPrefix(fn, "verifsim/") {
				continue
			}
			fn = strings.TrimPrefix(fn, "github.com/oasisprotocol/curve25519-voi/")
			fns = append(fns, fn)
			break
		}
		if len(fns) == 2 {
			break
		}
	}
	sort.Strings(fns)
	if len(fns) == 0 {
		return "unparsed-report"
	}
	return strings.Join(fns, "|")
}

// ---- watchdog: real time and memory only ever produce exit 2 ------------------------

var (
	wdMu    sync.Mutex
	wdName  string
	wdIdx   uint64
	wdSeed  uint64
	wdSince time.Time
)

func watchRun(name string, idx, seed uint64) {
	wdMu.Lock()
	wdName, wdIdx, wdSeed, wdSince = name, idx, seed, time.Now()
	wdMu.Unlock()
}

func init() {
	go func() {
		var ms runtime.MemStats
		for {
			time.Sleep(2 * time.Second)
			wdMu.Lock()
			name, idx, seed, since := wdName, wdIdx, wdSeed, wdSince
			wdMu.Unlock()
			if name == "" {
				continue
			}
			runtime.ReadMemStats(&ms)
			if d := time.Since(since); d > 180*time.Second || ms.HeapAlloc > 6<<30 {
				fmt.Fprintf(os.Stderr, "vsim: WATCHDOG: workload %s run %d (seed %d) has been running for %v with %d MB of heap; giving up\n", name, idx, seed, d.Round(time.Second), ms.HeapAlloc>>20)
				// the driver decides from the stacks whether a library call is what does not return
				buf := make([]byte, 1<<20)
				buf = buf[:runtime.Stack(buf, true)]
				fmt.Fprintf(os.Stderr, "vsim: WATCHDOG-STACKS\n%s\n", buf)
				os.Exit(2)
			}
		}
	}()
}
