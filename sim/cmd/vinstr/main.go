// vinstr writes the instrumented overlay for a repository tree.
package main

import (
	"fmt"
	"os"

	"verifsim/instr"
)

func main() {
	if len(os.Args) < 3 {
		fmt.Fprintln(os.Stderr, "usage: vinstr <repo> <outdir> [wide]")
		os.Exit(2)
	}
	res, err := instr.Generate(os.Args[1], os.Args[2], len(os.Args) > 3)
	if err != nil {
		fmt.Fprintln(os.Stderr, "vinstr:", err)
		os.Exit(2)
	}
	fmt.Printf("instrumented %d files, %d yield sites\n", len(res.Files), len(res.Sites))
}
