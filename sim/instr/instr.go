// Package instr generates instrumented copies of library source files for use
// with `go build -overlay`.
//
// go/parser is used only to locate statements; the output is the original text
// with `__verifrt.Yield(<site>); ` spliced in at the byte offset of every
// statement that is an element of a statement list, one import spliced onto the
// package line, and an import of "sync" re-pointed to verifsim/simsync under the
// same local name.  Line numbers, comments, build constraints and //go:
// directives are preserved exactly.
package instr

import (
	"encoding/json"
	"fmt"
	"go/ast"
	"go/parser"
	"go/token"
	"os"
	"path/filepath"
	"sort"
	"strconv"
	"strings"
)

type Site struct {
	ID   int    `json:"id"`
	File string `json:"file"`
	Line int    `json:"line"`
	Func string `json:"func"`
}

type Result struct {
	Files   []string          `json:"files"`
	Sites   []Site            `json:"sites"`
	Overlay map[string]string `json:"-"`
}

type splice struct {
	off  int
	text string
	del  int // bytes of the original to drop at off
}

// SelectFiles applies the rule of DESIGN §3.2 to the tree rooted at repo: every
// non-test file of the cache package, and every other non-test .go file that
// imports sync or sync/atomic.
//
// wide additionally selects every non-test file under primitives/ (the protocol
// layer: ed25519, sr25519, merlin, ecvrf, x25519, h2c), so that tasks can be
// preempted between the statements of Sign, Verify, batch verification etc.;
// the arithmetic packages (curve, internal/*) stay atomic.
func SelectFiles(repo string, wide bool) ([]string, error) {
	return SelectFilesMode(repo, b2mode(wide))
}

func b2mode(wide bool) int {
	if wide {
		return 1
	}
	return 0
}

// SelectFilesMode: mode 0 narrow, 1 wide (primitives/**), 2 wide plus the STROBE
// duplex (internal/strobe/strobe.go; the Keccak permutation itself stays atomic),
// for the workload that runs concurrent users of clones of one transcript.
func SelectFilesMode(repo string, mode int) ([]string, error) {
	if mode < 0 {
		return selectSyncImporters(repo)
	}
	wide := mode >= 1
	strobeFile := filepath.Join(repo, "internal", "strobe", "strobe.go")
	keccakFiles := map[string]bool{filepath.Join(repo, "internal", "strobe", "keccakf.go"): true, filepath.Join(repo, "internal", "strobe", "keccakf_amd64.go"): true}
	var out []string
	cacheDir := filepath.Join(repo, "primitives", "ed25519", "extra", "cache")
	primDir := filepath.Join(repo, "primitives") + string(filepath.Separator)
	err := filepath.Walk(repo, func(p string, info os.FileInfo, err error) error {
		if err != nil {
			return err
		}
		if info.IsDir() {
			n := info.Name()
			if p != repo && (strings.HasPrefix(n, ".") || n == "testdata" || n == "asm") {
				return filepath.SkipDir
			}
			return nil
		}
		if !strings.HasSuffix(p, ".go") || strings.HasSuffix(p, "_test.go") {
			return nil
		}
		// mode 3: also the group arithmetic (curve/*.go, not its sub-packages): preemption between the statements of the
		// scalar multiplications, table lookups and point operations.  The constant tables are data, not code.
		inCurve := mode >= 3 && filepath.Dir(p) == filepath.Join(repo, "curve") && !strings.HasPrefix(filepath.Base(p), "constants")
		if filepath.Dir(p) == cacheDir || (wide && strings.HasPrefix(p, primDir)) || (mode >= 2 && (p == strobeFile || keccakFiles[p])) || inCurve {
			out = append(out, p)
			return nil
		}
		fset := token.NewFileSet()
		f, err := parser.ParseFile(fset, p, nil, parser.ImportsOnly)
		if err != nil {
			return nil // the compiler will complain, not us
		}
		for _, im := range f.Imports {
			path, _ := strconv.Unquote(im.Path.Value)
			if path == "sync" || path == "sync/atomic" {
				out = append(out, p)
				break
			}
		}
		return nil
	})
	sort.Strings(out)
	return out, err
}

// OnlyFuncs restricts instrumentation of a file (by base name) to the listed
// functions: the byte-wrapper around the Keccak permutation is interruptible, the 24
// rounds themselves stay atomic.
var OnlyFuncs = map[string]map[string]bool{
	"keccakf.go":       {"keccakF1600Bytes": true},
	"keccakf_amd64.go": {"keccakF1600Bytes": true},
}

// selectSyncImporters: mode -1, used by the builds that are otherwise uninstrumented.
// Only files importing "sync" are copied, and only their import is re-pointed to simsync
// (no yields): sync.Pool is non-deterministic by design, and a tree that pools objects
// would otherwise not replay.  simsync types are plain pass-throughs outside a simulation.
func selectSyncImporters(repo string) ([]string, error) {
	var out []string
	err := filepath.Walk(repo, func(p string, info os.FileInfo, err error) error {
		if err != nil {
			return err
		}
		if info.IsDir() {
			n := info.Name()
			if p != repo && (strings.HasPrefix(n, ".") || n == "testdata" || n == "asm") {
				return filepath.SkipDir
			}
			return nil
		}
		if !strings.HasSuffix(p, ".go") || strings.HasSuffix(p, "_test.go") {
			return nil
		}
		fset := token.NewFileSet()
		f, err := parser.ParseFile(fset, p, nil, parser.ImportsOnly)
		if err != nil {
			return nil
		}
		for _, im := range f.Imports {
			if path, _ := strconv.Unquote(im.Path.Value); path == "sync" {
				out = append(out, p)
				break
			}
		}
		return nil
	})
	sort.Strings(out)
	return out, err
}

// NoYields makes File splice only the imports (mode -1).
var NoYields bool

// File instruments one file; site ids start at *next.
func File(path string, next *int) (string, []Site, error) {
	src, err := os.ReadFile(path)
	if err != nil {
		return "", nil, err
	}
	fset := token.NewFileSet()
	f, err := parser.ParseFile(fset, path, src, parser.ParseComments)
	if err != nil {
		return "", nil, err
	}
	tf := fset.File(f.Pos())
	var sp []splice
	var sites []Site

	// never instrument functions that the runtime restricts
	skipFunc := func(fd *ast.FuncDecl) bool {
		if fd.Doc == nil {
			return false
		}
		for _, c := range fd.Doc.List {
			if strings.HasPrefix(c.Text, "//go:nosplit") || strings.HasPrefix(c.Text, "//go:norace") || strings.HasPrefix(c.Text, "//go:noescape") {
				return true
			}
		}
		return false
	}

	var curFunc string
	// the Body of a switch / type switch / select is a block whose elements are the
	// clauses themselves, not statements one may prefix
	clauseBlocks := map[*ast.BlockStmt]bool{}
	addList := func(list []ast.Stmt) {
		if NoYields {
			return
		}
		for _, st := range list {
			switch st.(type) {
			case *ast.EmptyStmt:
				continue
			}
			id := *next
			*next++
			pos := fset.Position(st.Pos())
			sites = append(sites, Site{ID: id, File: path, Line: pos.Line, Func: curFunc})
			sp = append(sp, splice{off: tf.Offset(st.Pos()), text: fmt.Sprintf("__verifrt.Yield(%d); ", id)})
		}
	}
	var walk func(n ast.Node) bool
	walk = func(n ast.Node) bool {
		switch x := n.(type) {
		case *ast.FuncDecl:
			if x.Body == nil || skipFunc(x) {
				return false
			}
			if only := OnlyFuncs[filepath.Base(path)]; only != nil && !only[x.Name.Name] {
				return false
			}
			curFunc = x.Name.Name
			if x.Recv != nil && len(x.Recv.List) > 0 {
				curFunc = "(" + exprString(x.Recv.List[0].Type) + ")." + curFunc
			}
		case *ast.SwitchStmt:
			clauseBlocks[x.Body] = true
		case *ast.TypeSwitchStmt:
			clauseBlocks[x.Body] = true
		case *ast.SelectStmt:
			clauseBlocks[x.Body] = true
		case *ast.BlockStmt:
			if !clauseBlocks[x] {
				addList(x.List)
			}
		case *ast.CaseClause:
			addList(x.Body)
		case *ast.CommClause:
			addList(x.Body)
		}
		return true
	}
	ast.Inspect(f, walk)

	// import of the runtime, on the package line
	sp = append(sp, splice{off: tf.Offset(f.Name.End()), text: `; import __verifrt "verifsim/rt"`})
	// re-point "sync"
	for _, im := range f.Imports {
		p, _ := strconv.Unquote(im.Path.Value)
		if p != "sync" {
			continue
		}
		name := "sync"
		if im.Name != nil {
			name = "" // keep the existing local name
		}
		txt := `"verifsim/simsync"`
		if name != "" {
			txt = name + " " + txt
		}
		sp = append(sp, splice{off: tf.Offset(im.Path.Pos()), text: txt, del: len(im.Path.Value)})
	}
	sort.SliceStable(sp, func(i, j int) bool { return sp[i].off < sp[j].off })
	var b strings.Builder
	last := 0
	for _, s := range sp {
		b.Write(src[last:s.off])
		b.WriteString(s.text)
		last = s.off + s.del
	}
	b.Write(src[last:])
	out := b.String()
	// a file whose only use of the rt import would be nothing still needs it used
	if len(sites) == 0 {
		out += "\nvar _ = __verifrt.Yield\n"
	}
	return out, sites, nil
}

func exprString(e ast.Expr) string {
	switch x := e.(type) {
	case *ast.Ident:
		return x.Name
	case *ast.StarExpr:
		return "*" + exprString(x.X)
	case *ast.IndexExpr:
		return exprString(x.X)
	}
	return "?"
}

// Generate instruments the selected files of repo into outDir and writes
// outDir/overlay.json and outDir/sites.json.
func Generate(repo, outDir string, wide bool) (*Result, error) {
	return GenerateMode(repo, outDir, b2mode(wide))
}

func GenerateMode(repo, outDir string, mode int) (*Result, error) {
	NoYields = mode < 0
	defer func() { NoYields = false }()
	files, err := SelectFilesMode(repo, mode)
	if err != nil {
		return nil, err
	}
	if err := os.MkdirAll(outDir, 0o755); err != nil {
		return nil, err
	}
	res := &Result{Overlay: map[string]string{}}
	next := 1
	for i, f := range files {
		txt, sites, err := File(f, &next)
		if err != nil {
			return nil, fmt.Errorf("instrument %s: %w", f, err)
		}
		rel, _ := filepath.Rel(repo, f)
		gen := filepath.Join(outDir, fmt.Sprintf("%02d_%s", i, strings.ReplaceAll(rel, string(filepath.Separator), "__")))
		if err := os.WriteFile(gen, []byte(txt), 0o644); err != nil {
			return nil, err
		}
		res.Overlay[f] = gen
		res.Files = append(res.Files, rel)
		for k := range sites {
			sites[k].File = rel
		}
		res.Sites = append(res.Sites, sites...)
	}
	ov, _ := json.MarshalIndent(map[string]interface{}{"Replace": res.Overlay}, "", " ")
	if err := os.WriteFile(filepath.Join(outDir, "overlay.json"), ov, 0o644); err != nil {
		return nil, err
	}
	sj, _ := json.MarshalIndent(res, "", " ")
	if err := os.WriteFile(filepath.Join(outDir, "sites.json"), sj, 0o644); err != nil {
		return nil, err
	}
	return res, nil
}
