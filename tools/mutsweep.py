#!/usr/bin/env python3
"""Systematic sensitivity sweep (not a registered check; an aid like the coverage audit).

Enumerates first-order syntactic mutants (sim/cmd/mutgen) of the files the claimed
properties are anchored in, keeps those that still compile and pass the repository's
own test suite, and runs the quick tier of the checks of the file's properties against
a scratch copy carrying the mutant.  Survivors of the checks are candidates for a blind
spot (or equivalent / performance-only mutants); they are triaged by hand and recorded
in DESIGN 10.5.

  tools/mutsweep.py --out DIR [--budget-min 150] [--seed 1] [--workers 5] [--only substr]

Everything runs on scratch copies outside /repo and /verif, removed at the end.
"""
import argparse, json, os, random, shutil, subprocess, sys, threading, time, queue, tempfile

ENV = dict(os.environ, GOFLAGS="-mod=mod", GOPROXY="off", GOSUMDB="off", GOTOOLCHAIN="local")
HERE = os.path.dirname(os.path.dirname(os.path.abspath(__file__)))
REPO = os.environ.get("VERIF_REPO_BASE", "/repo")

TARGETS = [
    # file, checks to try in order, sampling weight (fraction of its mutants to take)
    ("primitives/ed25519/extra/cache/cache.go", ["C18", "C09"], 1.0),
    ("primitives/ed25519/extra/cache/lru.go", ["C18", "C09"], 1.0),
    ("primitives/ed25519/batch_verify.go", ["C09", "C02"], 1.0),
    ("primitives/ed25519/ed25519.go", ["C02", "C09", "C19"], 1.0),
    ("primitives/ed25519/ed25519_precomputation.go", ["C09", "C02"], 1.0),
    ("primitives/ed25519/extra/ecvrf/ecvrf.go", ["C15", "C19"], 1.0),
    ("primitives/sr25519/context.go", ["C12", "C19"], 1.0),
    ("primitives/sr25519/sign.go", ["C12", "C19"], 1.0),
    ("primitives/sr25519/batch_verify.go", ["C12", "C19"], 1.0),
    ("primitives/sr25519/keys.go", ["C12", "C19"], 1.0),
    ("primitives/merlin/merlin.go", ["C13", "C12"], 1.0),
    ("internal/strobe/strobe.go", ["C13", "C12"], 1.0),
    ("internal/strobe/keccakf.go", ["C13", "C06"], 0.03),
    ("internal/scalar128/scalar128.go", ["C09", "C12"], 1.0),
    ("internal/lattice/lattice_reduction.go", ["C09", "C02", "C19"], 0.5),
    ("curve/scalar_mul_pippenger.go", ["C09", "C06"], 0.3),
    ("primitives/h2c/expand_message.go", ["C15", "C19"], 0.5),
    ("primitives/x25519/x25519.go", ["C19", "C06"], 0.3),
]


def sh(cmd, cwd=None, timeout=None, env=ENV):
    try:
        p = subprocess.run(cmd, cwd=cwd, env=env, stdout=subprocess.PIPE, stderr=subprocess.STDOUT, timeout=timeout)
        return p.returncode, p.stdout.decode(errors="replace")
    except subprocess.TimeoutExpired as e:
        return 124, (e.stdout or b"").decode(errors="replace")


def main():
    ap = argparse.ArgumentParser()
    ap.add_argument("--out", required=True)
    ap.add_argument("--budget-min", type=float, default=150)
    ap.add_argument("--seed", type=int, default=1)
    ap.add_argument("--workers", type=int, default=5)
    ap.add_argument("--only", default="")
    ap.add_argument("--jobs", default="16")
    a = ap.parse_args()
    os.makedirs(a.out, exist_ok=True)
    mutgen = os.path.join(a.out, "mutgen")
    rc, o = sh(["go", "build", "-o", mutgen, "./cmd/mutgen"], cwd=os.path.join(HERE, "sim"))
    if rc != 0:
        print(o); sys.exit(2)
    rng = random.Random(a.seed)
    work = []
    for f, checks, w in TARGETS:
        if a.only and a.only not in f:
            continue
        rc, o = sh([mutgen, "-file", os.path.join(REPO, f), "-list"])
        ms = [l.split("\t") for l in o.strip().split("\n") if l]
        rng.shuffle(ms)
        ms = ms[: max(1, int(len(ms) * w))]
        for m in ms:
            work.append(dict(file=f, idx=int(m[0]), line=int(m[1]), kind=m[2], desc=m[3], checks=checks))
    rng.shuffle(work)
    print("mutants queued:", len(work), flush=True)
    deadline = time.time() + a.budget_min * 60
    res_path = os.path.join(a.out, "results.jsonl")
    lock = threading.Lock()
    wq = queue.Queue()
    for w_ in work:
        wq.put(w_)
    sq = queue.Queue()
    stats = dict(nocompile=0, killed_by_tests=0, survived_tests=0)

    def record(r):
        with lock:
            with open(res_path, "a") as fh:
                fh.write(json.dumps(r) + "\n")

    def stage1(i):
        d = tempfile.mkdtemp(prefix="msw-%d-" % i, dir="/tmp")
        sh(["rsync", "-a", "--exclude", ".git", REPO + "/", d + "/"])
        while time.time() < deadline - 600:
            try:
                m = wq.get_nowait()
            except queue.Empty:
                break
            tgt = os.path.join(d, m["file"])
            orig = open(os.path.join(REPO, m["file"]), "rb").read()
            sh([mutgen, "-file", os.path.join(REPO, m["file"]), "-n", str(m["idx"]), "-out", tgt])
            rc, o = sh(["go", "build", "./..."], cwd=d, timeout=300)
            if rc != 0:
                st = "nocompile"
            else:
                rc, o = sh(["go", "test", "-vet=off", "-count=1", "-timeout", "150s", "./..."], cwd=d, timeout=400)
                st = "survived_tests" if rc == 0 else "killed_by_tests"
            open(tgt, "wb").write(orig)
            with lock:
                stats[st] += 1
            if st == "survived_tests":
                sq.put(m)
            else:
                record(dict(m, status=st))
        shutil.rmtree(d, ignore_errors=True)

    ths = [threading.Thread(target=stage1, args=(i,)) for i in range(a.workers)]
    for t in ths:
        t.start()
    d2 = tempfile.mkdtemp(prefix="msw-chk-", dir="/tmp")
    sh(["rsync", "-a", "--exclude", ".git", REPO + "/", d2 + "/"])
    n_checked = n_caught = 0
    while True:
        if time.time() > deadline:
            break
        try:
            m = sq.get(timeout=5)
        except queue.Empty:
            if not any(t.is_alive() for t in ths):
                break
            continue
        tgt = os.path.join(d2, m["file"])
        orig = open(os.path.join(REPO, m["file"]), "rb").read()
        sh([mutgen, "-file", os.path.join(REPO, m["file"]), "-n", str(m["idx"]), "-out", tgt])
        caught = None
        tried = []
        for cid in m["checks"]:
            env = dict(ENV, VERIF_REPO=d2, VERIF_EVIDENCE_DIR=os.path.join(a.out, "ev"), VERIF_JOBS=a.jobs)
            t0 = time.time()
            rc, o = sh([os.path.join(HERE, "check"), cid], cwd=HERE, timeout=1500, env=env)
            dt = time.time() - t0
            viol = [l for l in o.split("\n") if l.startswith("  violation")][:1]
            tried.append(dict(check=cid, rc=rc, secs=round(dt, 1), violation=(viol[0].strip()[:300] if viol else ""),
                              tail=(o[-600:] if rc not in (0, 1) else "")))
            if rc == 1 and ("VIOLATION property=%s " % cid) in o:
                caught = cid
                break
        open(tgt, "wb").write(orig)
        n_checked += 1
        n_caught += caught is not None
        record(dict(m, status="caught" if caught else "SURVIVED_CHECKS", caught_by=caught, tried=tried))
        print("[%d checked, %d caught | stage1 %s | queue %d] %s:%d %s %s -> %s" % (
            n_checked, n_caught, stats, sq.qsize(), m["file"], m["line"], m["kind"], m["desc"],
            caught or "SURVIVED"), flush=True)
    for t in ths:
        t.join()
    shutil.rmtree(d2, ignore_errors=True)
    print("done: stage1", stats, "checked", n_checked, "caught", n_caught, flush=True)


if __name__ == "__main__":
    main()
