#!/usr/bin/env python3
"""Replaces the two generated tables of DESIGN.md section 10.4 with the output of tools/mktable.py."""
import os, subprocess, re
root = os.path.dirname(os.path.dirname(os.path.abspath(__file__)))
tables = subprocess.run(['python3', os.path.join(root, 'tools', 'mktable.py')], capture_output=True, text=True, check=True).stdout
p = os.path.join(root, 'DESIGN.md')
s = open(p).read()
a = s.index('#### Own deliberate mutants (`mutants/`')
b = s.index('## Appendix A')
s = s[:a] + tables.rstrip('\n') + '\n\n' + s[b:]
open(p, 'w').write(s)
print("tables regenerated:", tables.count('\n'), "lines")
