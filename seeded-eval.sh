#!/bin/bash
# seeded-eval.sh <worktree> <change-dir> <seeded-id> <property> <demo-dest-dir-or-> <demo command...>
# Confirms an independently written property-breaking change in its scratch worktree
# (applies, builds, the repository's tests pass, the demonstration fails with it and
# passes without it), stores it under /verif/seeded/<id>/ and runs the property's check
# against a scratch copy with the change applied.
set -u
export GOFLAGS=-mod=mod GOPROXY=off GOSUMDB=off GOTOOLCHAIN=local
WT=$1; CH=$2; ID=$3; PROP=$4; DEST=$5; shift 5; DEMO="$*"
cd "$WT" || exit 2
git checkout -q -- . ; git clean -fdq -e out
place() { if [ "$DEST" != "-" ]; then for f in "$CH"/*_test.go "$CH"/*.go; do [ -f "$f" ] && cp "$f" "$DEST"/; done; fi; }
unplace() { git clean -fdq -e out; }
res=()
place; if bash -c "$DEMO" > /tmp/seval.out 2>&1; then res+=("demo passes on the unmodified tree: yes"); else res+=("demo passes on the unmodified tree: NO"); tail -5 /tmp/seval.out; fi; unplace
if ! git apply "$CH/patch.diff"; then echo "patch does not apply"; exit 1; fi
if go build ./... 2>/tmp/seval.out; then res+=("compiles: yes"); else res+=("compiles: NO"); fi
if go test -vet=off -count=1 ./... > /tmp/seval.out 2>&1; then res+=("repository tests pass with the change: yes"); else res+=("repository tests pass with the change: NO"); grep -v "^ok\|no test files" /tmp/seval.out | head; fi
place; if bash -c "$DEMO" > /tmp/seval.out 2>&1; then res+=("demo fails with the change: NO"); else res+=("demo fails with the change: yes"); fi; unplace
git checkout -q -- . ; git clean -fdq -e out
mkdir -p /verif/seeded/$ID
cp "$CH"/patch.diff /verif/seeded/$ID/patch.diff
for f in "$CH"/*; do case "$f" in */patch.diff) ;; *) cp "$f" /verif/seeded/$ID/ ;; esac; done
printf '%s\n' "${res[@]}"
cd /verif
[ -f seeded/$ID/meta.json ] || echo "{\"id\": \"$ID\", \"property\": \"$PROP\"}" > seeded/$ID/meta.json
out=$(./selftest-mutants.sh seeded/$ID/patch.diff 2>&1); echo "$out" | grep "^MUTANT" 
caught=$(echo "$out" | grep -c "caught by")
python3 - "$ID" "$PROP" "$DEMO" "$caught" "${res[@]}" <<'PY'
import json,sys,os
id,prop,demo,caught=sys.argv[1:5]; res=sys.argv[5:]
p='/verif/seeded/%s/meta.json'%id
m={}
if os.path.exists(p):
    try: m=json.load(open(p))
    except Exception: m={}
m.update({"id":id,"property":prop,"demonstration_command":demo,"confirmed":res,
  "check_run":"./selftest-mutants.sh seeded/%s/patch.diff  (applies the patch to a scratch copy of /repo and runs ./check %s against it)"%(id,prop),
  "caught_by_check": caught!="0"})
m.setdefault("needs_to_manifest","see README.md")
json.dump(m,open(p,'w'),indent=1)
PY
